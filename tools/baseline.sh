#!/bin/sh
# Runs the repository's test-suite (guard off: no cfg is passed) and compares with the
# stable-pass list of /root/.vp/BASELINE.json. Exit 0 iff every stable test passed.
cd /repo || exit 2
export CARGO_NET_OFFLINE=true
OUT=$(mktemp)
if cargo nextest --version >/dev/null 2>&1; then
  cargo nextest run --workspace --no-fail-fast --offline --test-threads 8 --config-file /verif/tools/nextest.toml >"$OUT" 2>&1
else
  cargo test --workspace --no-fail-fast --offline >"$OUT" 2>&1
fi
python3 - "$OUT" <<'PY'
import json, re, sys
out = open(sys.argv[1]).read()
base = json.load(open('/root/.vp/BASELINE.json'))
passed = set()
for m in re.finditer(r'^\s+PASS \[.*?\] (?:\(.*?\) )?(\S+) (\S+)$', out, re.M):
    passed.add('%s::%s' % (m.group(1), m.group(2)))
if not passed:  # cargo test format: cannot attribute crates; accept by name suffix
    names = set(re.findall(r'^test (\S+) \.\.\. ok$', out, re.M))
    missing = [t for t in base['stable_pass'] if t.split('::', 1)[1] not in names]
else:
    missing = [t for t in base['stable_pass'] if t not in passed]
# timing/port-sensitive tests: retry the missing ones serially (the recorded baseline used a serial profile for them)
import subprocess
still = []
for t in missing:
    crate, name = t.split('::', 1)
    ok = False
    for _ in range(3):
        r = subprocess.run(['cargo', 'nextest', 'run', '-p', crate, '--offline', '--test-threads', '1', '-E', 'test(=%s)' % name],
                           capture_output=True, text=True)
        if r.returncode == 0 and re.search(r'1 passed', r.stdout + r.stderr):
            ok = True
            break
    if not ok:
        still.append(t)
missing = still
print('stable tests: %d, passed: %d, missing: %d' % (len(base['stable_pass']), len(base['stable_pass']) - len(missing), len(missing)))
for t in missing[:40]:
    print('  MISSING', t)
sys.exit(1 if missing else 0)
PY
RC=$?
rm -f "$OUT"
exit $RC
