#!/usr/bin/env python3
"""Sanity probe of the inlined view (engine/inline.py): evaluates every property's rules on the current tree with all unanchored
private helpers spliced into their callers. Inlining preserves behaviour, so every report is a dependence of a rule on where
code lives (or an inliner defect). usage: inline_probe.py [Cxx ...]"""
import os, sys, re
sys.path.insert(0, os.path.dirname(os.path.dirname(os.path.abspath(__file__))))
from engine import facts, core, run, inline

d, _ = facts.ensure_facts()
prog = core.Program(facts.load_raw(d))
props = sys.argv[1:] or sorted(f[:-3] for f in os.listdir(os.path.join(os.path.dirname(__file__), '..', 'rules')) if re.match(r'^C\d\d\.py$', f))
known = {(k['property'], k['key']) for k in run.load_known().get('known', [])}
tot = 0
for p in props:
    prog.asked = set()
    run._evaluate_once(prog, p, 'quick')
    raw2, inl = inline.inline_raw(prog, set(prog.asked) | (set() if os.environ.get('IP_ALL') else inline.baseline_functions()))
    try:
        ctx = run._evaluate_once(core.Program(raw2), p, 'quick')
        v = [x for x in ctx.violations if (p, x['key']) not in known]
    except Exception as e:
        v = [{'key': 'CHECKER-ERROR %r' % e}]
    tot += len(v)
    print('%s: %d reports on the inlined view (%d callers changed) %s' % (p, len(v), len(inl), [x['key'][:110] for x in v[:6]]))
print('total', tot)
