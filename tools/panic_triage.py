#!/usr/bin/env python3
"""List panic-capable constructs reachable from roots, with discharge status (triage aid)."""
import sys, os, re, json
sys.path.insert(0, os.path.dirname(os.path.dirname(os.path.abspath(__file__))))
from engine import facts, core, panic
from engine.core import short_name

def main():
    args = sys.argv[1:]
    stop = None
    emit = False
    if '--stop' in args:
        i = args.index('--stop'); stop = args[i+1]; del args[i:i+2]
    if '--emit' in args:
        args.remove('--emit'); emit = True
    d, _ = facts.ensure_facts()
    P = core.Program(facts.load_raw(d))
    roots = []
    for r in args:
        bs = [b for b in P.by_npath.get(r, []) if b.raw['promoted'] is None]
        if not bs:
            print('root not found', r); return
        roots += [b.id for b in bs]
        for b in bs:
            roots += [c.id for c in P.closures_of(b) if c.raw.get('coroutine')]
    stopf = (lambda cid: re.search(stop, P.bodies[cid].npath) is not None) if stop else None
    par = panic.reachable(P, roots, stopf)
    audit = panic.Audit(os.path.join(os.path.dirname(os.path.dirname(os.path.abspath(__file__))), 'rules', 'panic_audit.json'))
    n = 0; nd = 0; na = 0
    entries = []
    for bid in par:
        b = P.bodies[bid]
        if b.raw['promoted'] is not None: continue
        for s in panic.panic_sites(b):
            n += 1
            if s.kind in panic.DEBUG_ONLY_KINDS: nd += 1; continue
            why = panic.try_discharge(b, s)
            if why: nd += 1; continue
            if audit.lookup(s): na += 1; continue
            path = [short_name(P.bodies[x].npath) for x in P.path_to(par, bid)]
            print('%s:%s  [%s] %s\n     fn=%s\n     via %s' % (b.file, s.line, s.kind, s.desc, b.npath, ' -> '.join(path[-5:])))
            entries.append({'fn': b.npath, 'kind': s.kind, 'desc': s.desc, 'count': 1, 'reason': 'TODO'})
    print('bodies=%d sites=%d discharged=%d audited=%d unproven=%d' % (len(par), n, nd, na, n-nd-na))
    if emit:
        print(json.dumps(entries, indent=1))

main()
