#!/usr/bin/env python3
"""(Re)computes the name-free descriptor `cdesc` of every audit-ledger entry from the sites that match it today."""
import sys, os, re, json
sys.path.insert(0, os.path.dirname(os.path.dirname(os.path.abspath(__file__))))
from engine import facts, core, panic
from rules.panic_roots import ROOTS, stop_regex
V = os.path.dirname(os.path.dirname(os.path.abspath(__file__)))
d, _ = facts.ensure_facts()
P = core.Program(facts.load_raw(d))
path = os.path.join(V, 'rules', 'panic_audit.json')
a = json.load(open(path))
idx = {(e['fn'], e['kind'], e['desc']): e for e in a['entries']}
seen = set()
for b in P.bodies.values():
    if b.raw['promoted'] is not None:
        continue
    if not any(k[0] == b.npath for k in idx):
        continue
    for s in panic.panic_sites(b):
        e = idx.get(s.key())
        if e is not None:
            e['cdesc'] = s.cdesc
            seen.add(s.key())
print('entries', len(a['entries']), 'matched today', len(seen), 'without site', [k[0][-40:] + '|' + k[2][:40] for k in idx if k not in seen][:10])
json.dump(a, open(path, 'w'), indent=1)
