#!/usr/bin/env python3
"""Append audit entries for still-unproven sites (from /tmp/panic_sites.json) of one function.
usage: audit_add.py <fn-substring> <class> <reason> [desc-substring]"""
import json, sys
fn, cls, reason = sys.argv[1:4]
dsub = sys.argv[4] if len(sys.argv) > 4 else ''
d = json.load(open('/tmp/panic_sites.json'))
a = json.load(open('/verif/rules/panic_audit.json'))
have = {(e['fn'], e['kind'], e['desc']) for e in a['entries']}
n = 0
for p, v in d.items():
    for s in v['unproven']:
        k = (s['fn'], s['kind'], s['desc'])
        if fn in s['fn'] and dsub in s['desc'] and k not in have:
            cnt = sum(1 for x in v['unproven'] if (x['fn'], x['kind'], x['desc']) == k)
            a['entries'].append({'fn': s['fn'], 'kind': s['kind'], 'desc': s['desc'], 'cdesc': s.get('cdesc', s['desc']), 'count': cnt, 'class': cls, 'reason': reason})
            have.add(k); n += 1
json.dump(a, open('/verif/rules/panic_audit.json', 'w'), indent=1)
print('added', n)
