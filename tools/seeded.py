#!/usr/bin/env python3
"""Apply a seeded change to /repo, run the given checks (default: the broken property's), undo it.
usage: tools/seeded.py <seeded-dir> [Cxx ...]   (prints which checks fire; writes <dir>/result.json)"""
import json, os, subprocess, sys
d = os.path.abspath(sys.argv[1])
meta = json.load(open(os.path.join(d, 'meta.json')))
props = sys.argv[2:] or [meta['property']]
patch = os.path.join(d, 'patch.diff')
st = subprocess.run(['git', '-C', '/repo', 'status', '--porcelain', '--untracked-files=no'], capture_output=True, text=True).stdout.strip()
if st:
    sys.exit('refusing: /repo has local modifications:\n' + st)
r = subprocess.run(['git', '-C', '/repo', 'apply', patch], capture_output=True, text=True)
if r.returncode != 0:
    sys.exit('patch does not apply: ' + r.stderr)
res = {}
try:
    for p in props:
        out = subprocess.run(['./check', p], cwd='/verif', capture_output=True, text=True)
        viol = [l for l in out.stdout.splitlines() if l.startswith('  rule=')]
        res[p] = {'exit': out.returncode, 'fired': [v.strip() for v in viol]}
        print(p, 'exit', out.returncode)
        for v in viol[:8]:
            print('   ', v.strip()[:220])
finally:
    subprocess.run(['git', '-C', '/repo', 'checkout', '--', '.'], check=True)
json.dump(res, open(os.path.join(d, 'result.json'), 'w'), indent=1)
