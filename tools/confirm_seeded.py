#!/usr/bin/env python3
"""Confirm a seeded change in a scratch worktree: demo passes without the change, fails with it, and the
stable baseline tests still pass with the change. usage: confirm_seeded.py <seeded-dir> <worktree>"""
import json, os, re, subprocess, sys
d, wt = os.path.abspath(sys.argv[1]), sys.argv[2]
meta = json.load(open(os.path.join(d, 'meta.json')))
def sh(cmd, **kw):
    return subprocess.run(cmd, shell=True, cwd=wt, capture_output=True, text=True, **kw)
def clean():
    sh('git checkout -- . && git clean -fdq -e target')
clean()
env_cmd = meta['demo_cmd']
out = {}
assert sh('git apply %s/demo.patch' % d).returncode == 0, 'demo.patch does not apply'
r = sh(env_cmd)
out['demo_without_change'] = 'pass' if r.returncode == 0 else 'FAIL'
assert sh('git apply %s/patch.diff' % d).returncode == 0, 'patch.diff does not apply'
r = sh(env_cmd)
out['demo_with_change'] = 'fail' if r.returncode != 0 else 'PASS(unexpected)'
clean()
assert sh('git apply %s/patch.diff' % d).returncode == 0
r = sh('cargo nextest run --workspace --no-fail-fast --offline --test-threads 8 --config-file /verif/tools/nextest.toml')
txt = r.stdout + r.stderr
passed = set('%s::%s' % (m.group(1), m.group(2)) for m in re.finditer(r'^\s+PASS \[.*?\] (?:\(.*?\) )?(\S+) (\S+)$', txt, re.M))
base = json.load(open('/root/.vp/BASELINE.json'))
missing = [t for t in base['stable_pass'] if t not in passed]
still = []
for t in missing:
    crate, name = t.split('::', 1)
    ok = False
    for _ in range(2):
        rr = sh("cargo nextest run -p %s --offline --test-threads 1 -E 'test(=%s)'" % (crate, name))
        if rr.returncode == 0:
            ok = True; break
    if not ok: still.append(t)
out['suite_with_change_missing_stable'] = still
clean()
out['confirmed'] = out['demo_without_change'] == 'pass' and out['demo_with_change'] == 'fail' and not still
json.dump(out, open(os.path.join(d, 'confirm.json'), 'w'), indent=1)
print(json.dumps(out))
