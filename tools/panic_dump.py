#!/usr/bin/env python3
"""Dump all unproven panic sites per property root group to /tmp/panic_sites.json (triage aid)."""
import sys, os, re, json
sys.path.insert(0, os.path.dirname(os.path.dirname(os.path.abspath(__file__))))
from engine import facts, core, panic
from engine.core import short_name
from rules.panic_roots import ROOTS, stop_regex

d, _ = facts.ensure_facts()
P = core.Program(facts.load_raw(d))
audit = panic.Audit(os.path.join(os.path.dirname(os.path.dirname(os.path.abspath(__file__))), 'rules', 'panic_audit.json'))
out = {}
seen_fn = {}
for prop, spec in ROOTS.items():
    roots = spec['roots']
    sr = stop_regex(prop)
    stopf = (lambda cid: re.search(sr, P.bodies[cid].npath) is not None) if sr else None
    ids = []
    missing = []
    for r in roots:
        bs = [b for b in P.by_npath.get(r, []) if b.raw['promoted'] is None]
        if not bs:
            missing.append(r); continue
        ids += [b.id for b in bs]
        for b in bs:
            ids += [c.id for c in P.closures_of(b) if c.raw.get('coroutine')]
    if spec.get('root_regex'):
        ids += [b.id for b in P.bodies.values() if b.raw['promoted'] is None and re.search(spec['root_regex'], b.path) and b.id not in ids]
    par = panic.reachable(P, ids, stopf)
    n = nd = na = 0
    sites = []
    for bid in par:
        b = P.bodies[bid]
        if b.raw['promoted'] is not None: continue
        for s in panic.panic_sites(b):
            n += 1
            if s.kind in panic.DEBUG_ONLY_KINDS: nd += 1; continue
            if panic.try_discharge(b, s): nd += 1; continue
            if audit.lookup(s): na += 1; continue
            path = [short_name(P.bodies[x].npath) for x in P.path_to(par, bid)]
            sites.append({'fn': b.npath, 'file': b.file, 'line': s.line, 'kind': s.kind, 'desc': s.desc, 'cdesc': s.cdesc, 'via': path[-4:]})
    audit.used.clear()
    out[prop] = {'missing_roots': missing, 'bodies': len(par), 'sites': n, 'discharged': nd, 'audited': na, 'unproven': sites}
    print(prop, 'missing', missing, 'bodies', len(par), 'sites', n, 'discharged', nd, 'audited', na, 'unproven', len(sites))
json.dump(out, open('/tmp/panic_sites.json', 'w'), indent=1)
allk = {(s['fn'], s['kind'], s['desc']) for v in out.values() for s in v['unproven']}
print('distinct unproven sites:', len(allk), 'in', len({k[0] for k in allk}), 'functions')
