#!/usr/bin/env python3
"""Writes rules/baseline_functions.json: the normalised paths of all workspace functions that existed when the rules were written
and confirmed. The inlined view (engine/inline.py) splices only functions that are NOT in this list (helpers introduced later)
into their callers; it never inlines or removes a function the rules were written against."""
import os, sys, json
sys.path.insert(0, os.path.dirname(os.path.dirname(os.path.abspath(__file__))))
from engine import facts, core
d, info = facts.ensure_facts()
P = core.Program(facts.load_raw(d))
names = sorted({b.npath for b in P.bodies.values() if b.raw['promoted'] is None and not b.raw.get('parent')})
out = os.path.join(os.path.dirname(__file__), '..', 'rules', 'baseline_functions.json')
json.dump({'repo_head': os.popen('git -C /repo rev-parse HEAD').read().strip(), 'functions': names}, open(out, 'w'), indent=0)
print(len(names), 'functions')
