#!/usr/bin/env python3
"""Robustness probe: simulates renaming every user-named local variable (not parameters, not fields) in every function of
the workspace by rewriting the facts in memory, then runs the rules. Any violation reported is a dependence of a rule on
a local variable's name (a behaviour-preserving edit would alarm). usage: rename_probe.py [Cxx ...]"""
import os, sys, re, json
sys.path.insert(0, os.path.dirname(os.path.dirname(os.path.abspath(__file__))))
from engine import facts, core, run

d, _ = facts.ensure_facts()
raw = facts.load_raw(d)
byid = {}
for c in raw.values():
    for b in c['bodies']:
        if b['promoted'] is None:
            byid[b['id']] = b

def param_names(b):
    return {l.get('name') for l in b['locals'][1:b['arg_count'] + 1] if l.get('name')}

def ancestor_params(b):
    out = set()
    p = b
    while p is not None:
        out |= param_names(p)
        p = byid.get(p.get('parent'))
    return out

SUF = '_rn'
def walk(x, keep):
    if isinstance(x, dict):
        f = x.get('f')
        if isinstance(f, str) and f.startswith('^'):
            root = f[1:].split('__')[0]
            if root not in keep and root != 'self':
                x['f'] = '^rn_' + root + f[1 + len(root):]
        for v in x.values():
            walk(v, keep)
    elif isinstance(x, list):
        for v in x:
            walk(v, keep)

n = 0
for c in raw.values():
    for b in c['bodies']:
        keep = ancestor_params(byid.get(b['id'], b)) if b['promoted'] is None else set()
        for i, l in enumerate(b['locals']):
            if i > b['arg_count'] and l.get('name') and l['name'] not in keep and l['name'] != 'self':
                l['name'] = 'rn_' + l['name']
                n += 1
        walk(b['blocks'], keep)
print('renamed %d locals' % n)
prog = core.Program(raw)
props = sys.argv[1:] or sorted(f[:-3] for f in os.listdir(os.path.join(os.path.dirname(__file__), '..', 'rules')) if re.match(r'^C\d\d\.py$', f))
known = {(k['property'], k['key']) for k in run.load_known().get('known', [])}
tot = 0
for p in props:
    try:
        ctx = run.evaluate(prog, p)
        v = [x for x in ctx.violations if (p, x['key']) not in known]
    except Exception as e:
        v = [{'key': 'CHECKER-ERROR %s' % str(e)[:100]}]
    tot += len(v)
    print('%s: %d name-dependent instances %s' % (p, len(v), [(x['key'][:70] if not os.environ.get('RP_FULL') else x['key'] + ' :: ' + str(x.get('message', x.get('msg', '')))[:400]) for x in v[:8]]))
print('total', tot)
