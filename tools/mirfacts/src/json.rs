//! Minimal JSON value + writer (no dependencies).

pub enum J {
    Null,
    B(bool),
    I(i128),
    S(String),
    A(Vec<J>),
    O(Vec<(&'static str, J)>),
}

impl J {
    pub fn s<T: Into<String>>(t: T) -> J {
        J::S(t.into())
    }
    pub fn opt_s(t: Option<String>) -> J {
        match t {
            Some(s) => J::S(s),
            None => J::Null,
        }
    }
    pub fn write(&self, out: &mut String) {
        match self {
            J::Null => out.push_str("null"),
            J::B(b) => out.push_str(if *b { "true" } else { "false" }),
            J::I(i) => out.push_str(&i.to_string()),
            J::S(s) => write_str(s, out),
            J::A(v) => {
                out.push('[');
                for (i, x) in v.iter().enumerate() {
                    if i > 0 {
                        out.push(',');
                    }
                    x.write(out);
                }
                out.push(']');
            }
            J::O(v) => {
                out.push('{');
                for (i, (k, x)) in v.iter().enumerate() {
                    if i > 0 {
                        out.push(',');
                    }
                    write_str(k, out);
                    out.push(':');
                    x.write(out);
                }
                out.push('}');
            }
        }
    }
}

fn write_str(s: &str, out: &mut String) {
    out.push('"');
    for c in s.chars() {
        match c {
            '"' => out.push_str("\\\""),
            '\\' => out.push_str("\\\\"),
            '\n' => out.push_str("\\n"),
            '\r' => out.push_str("\\r"),
            '\t' => out.push_str("\\t"),
            c if (c as u32) < 0x20 => out.push_str(&format!("\\u{:04x}", c as u32)),
            c => out.push(c),
        }
    }
    out.push('"');
}
