//! Serialisation of MIR bodies and item tables.

use crate::json::J;
use rustc_hir::def::DefKind;
use rustc_hir::def_id::{DefId, LocalDefId, LOCAL_CRATE};
use rustc_middle::mir::*;
use rustc_middle::ty::print::{with_crate_prefix, with_no_trimmed_paths, with_no_visible_paths, PrintTraitRefExt};
use rustc_middle::ty::{self, Ty, TyCtxt};
use rustc_span::Span;

macro_rules! pp {
    ($e:expr) => {
        with_no_visible_paths!(with_no_trimmed_paths!(with_crate_prefix!($e)))
    };
}

fn fix_crate(tcx: TyCtxt<'_>, s: String) -> String {
    let name = tcx.crate_name(LOCAL_CRATE).to_string();
    // `crate::` only ever appears as a path root in the printer's output
    s.replace("crate::", &format!("{}::", name))
}

pub fn pretty_def(tcx: TyCtxt<'_>, did: DefId) -> String {
    fix_crate(tcx, pp!(tcx.def_path_str(did)))
}

pub fn canon_def(tcx: TyCtxt<'_>, did: DefId) -> String {
    format!(
        "{}{}",
        tcx.crate_name(did.krate),
        tcx.def_path(did).to_string_no_crate_verbose()
    )
}

pub fn ty_str<'tcx>(tcx: TyCtxt<'tcx>, ty: Ty<'tcx>) -> String {
    fix_crate(tcx, pp!(format!("{}", ty)))
}

fn span_info(tcx: TyCtxt<'_>, span: Span) -> (String, i128, bool) {
    let exp = span.from_expansion();
    let sp = if exp { span.source_callsite() } else { span };
    let sm = tcx.sess.source_map();
    let lo = sm.lookup_char_pos(sp.lo());
    let file = match &lo.file.name {
        rustc_span::FileName::Real(r) => match r.local_path() {
            Some(p) => p.to_string_lossy().to_string(),
            None => format!("{:?}", r),
        },
        other => format!("{:?}", other),
    };
    (file, lo.line as i128, exp)
}

/// Outermost macro of the expansion a span comes from: "<crate>::<name>".
fn mac_info(tcx: TyCtxt<'_>, span: Span) -> Option<String> {
    if !span.from_expansion() {
        return None;
    }
    let mut last = None;
    for ed in span.macro_backtrace() {
        last = Some(ed);
    }
    let ed = last?;
    let name = match ed.kind {
        rustc_span::ExpnKind::Macro(_, sym) => sym.to_string(),
        rustc_span::ExpnKind::Desugaring(d) => format!("desugar:{:?}", d),
        rustc_span::ExpnKind::AstPass(p) => format!("astpass:{:?}", p),
        rustc_span::ExpnKind::Root => "root".to_string(),
    };
    let krate = match ed.macro_def_id {
        Some(d) => tcx.crate_name(d.krate).to_string(),
        None => "?".to_string(),
    };
    Some(format!("{}::{}", krate, name))
}

struct Cx<'a, 'tcx> {
    tcx: TyCtxt<'tcx>,
    body: &'a Body<'tcx>,
    owner: LocalDefId,
    typing_env: ty::TypingEnv<'tcx>,
}

impl<'a, 'tcx> Cx<'a, 'tcx> {
    fn field_name(&self, pty: &rustc_middle::mir::PlaceTy<'tcx>, f: rustc_abi::FieldIdx) -> String {
        let tcx = self.tcx;
        match pty.ty.kind() {
            ty::Adt(def, _) => {
                if def.is_enum() {
                    match pty.variant_index {
                        Some(v) => def.variant(v).fields[f].name.to_string(),
                        None => format!("{}", f.as_usize()),
                    }
                } else if def.is_union() || def.is_struct() {
                    def.non_enum_variant().fields[f].name.to_string()
                } else {
                    format!("{}", f.as_usize())
                }
            }
            ty::Closure(did, _) | ty::Coroutine(did, _) | ty::CoroutineClosure(did, _) => {
                if let Some(ldid) = did.as_local() {
                    let caps = tcx.closure_captures(ldid);
                    if let Some(c) = caps.get(f.as_usize()) {
                        return format!("^{}", c.to_symbol());
                    }
                }
                format!("{}", f.as_usize())
            }
            _ => format!("{}", f.as_usize()),
        }
    }

    fn place(&self, p: &Place<'tcx>) -> J {
        let tcx = self.tcx;
        let mut pty = rustc_middle::mir::PlaceTy::from_ty(self.body.local_decls[p.local].ty);
        let mut projs = Vec::new();
        for elem in p.projection.iter() {
            let j = match elem {
                ProjectionElem::Deref => J::s("*"),
                ProjectionElem::Field(f, _) => {
                    let of = match pty.ty.kind() {
                        ty::Adt(def, _) => J::S(pretty_def(tcx, def.did())),
                        _ => J::Null,
                    };
                    J::O(vec![
                        ("f", J::S(self.field_name(&pty, f))),
                        ("i", J::I(f.as_usize() as i128)),
                        ("of", of),
                    ])
                }
                ProjectionElem::Index(l) => J::O(vec![("idx", J::I(l.as_usize() as i128))]),
                ProjectionElem::ConstantIndex { offset, min_length, from_end } => J::O(vec![
                    ("cidx", J::I(offset as i128)),
                    ("min", J::I(min_length as i128)),
                    ("from_end", J::B(from_end)),
                ]),
                ProjectionElem::Subslice { from, to, from_end } => J::O(vec![
                    ("sub_from", J::I(from as i128)),
                    ("sub_to", J::I(to as i128)),
                    ("from_end", J::B(from_end)),
                ]),
                ProjectionElem::Downcast(name, v) => {
                    let n = match name {
                        Some(s) => s.to_string(),
                        None => match pty.ty.kind() {
                            ty::Adt(def, _) if def.is_enum() => def.variant(v).name.to_string(),
                            _ => format!("{}", v.as_usize()),
                        },
                    };
                    J::O(vec![("dc", J::S(n))])
                }
                ProjectionElem::OpaqueCast(_) => J::s("opaque"),
                ProjectionElem::UnwrapUnsafeBinder(_) => J::s("unwrap_binder"),
            };
            projs.push(j);
            pty = pty.projection_ty(tcx, elem);
        }
        J::O(vec![
            ("l", J::I(p.local.as_usize() as i128)),
            ("p", J::A(projs)),
            ("ty", J::S(ty_str(tcx, pty.ty))),
        ])
    }

    fn fn_info(&self, did: DefId, args: ty::GenericArgsRef<'tcx>) -> Vec<(&'static str, J)> {
        let tcx = self.tcx;
        let mut v = vec![
            ("def", J::S(pretty_def(tcx, did))),
            ("id", J::S(canon_def(tcx, did))),
            ("krate", J::S(tcx.crate_name(did.krate).to_string())),
            (
                "gargs",
                J::A(args.iter().map(|a| J::S(fix_crate(tcx, pp!(format!("{}", a))))).collect()),
            ),
        ];
        if let Some(tr) = tcx.trait_of_assoc(did) {
            v.push(("trait", J::S(pretty_def(tcx, tr))));
            if let Some(st) = args.types().next() {
                v.push(("self_ty", J::S(ty_str(tcx, st))));
            }
        }
        v.push(("name", J::S(tcx.item_name(did).to_string())));
        // resolution
        let res = std::panic::catch_unwind(std::panic::AssertUnwindSafe(|| {
            ty::Instance::try_resolve(tcx, self.typing_env, did, args)
        }));
        if let Ok(Ok(Some(inst))) = res {
            let rd = inst.def_id();
            if rd != did {
                v.push(("rdef", J::S(pretty_def(tcx, rd))));
                v.push(("rid", J::S(canon_def(tcx, rd))));
                v.push(("rkrate", J::S(tcx.crate_name(rd.krate).to_string())));
            }
            let kind = match inst.def {
                ty::InstanceKind::Item(_) => "item",
                ty::InstanceKind::Virtual(..) => "virtual",
                ty::InstanceKind::Intrinsic(_) => "intrinsic",
                ty::InstanceKind::ClosureOnceShim { .. } => "closure_once_shim",
                ty::InstanceKind::FnPtrShim(..) => "fnptr_shim",
                ty::InstanceKind::DropGlue(..) => "drop_glue",
                ty::InstanceKind::CloneShim(..) => "clone_shim",
                _ => "other",
            };
            v.push(("rkind", J::s(kind)));
        } else {
            v.push(("rkind", J::s("unresolved")));
        }
        v
    }

    fn constant(&self, c: &ConstOperand<'tcx>) -> J {
        let tcx = self.tcx;
        let ty = c.const_.ty();
        let mut v: Vec<(&'static str, J)> = vec![("k", J::s("const")), ("ty", J::S(ty_str(tcx, ty)))];
        match ty.kind() {
            ty::FnDef(did, args) => {
                v.push(("fn", J::O(self.fn_info(*did, args))));
                return J::O(v);
            }
            _ => {}
        }
        // name for unevaluated named constants
        if let Const::Unevaluated(uv, _) = c.const_ {
            if let Some(p) = uv.promoted {
                v.push(("promoted", J::I(p.as_usize() as i128)));
            } else {
                v.push(("name", J::S(pretty_def(tcx, uv.def))));
            }
        }
        if let Const::Ty(_, ct) = c.const_ {
            if let ty::ConstKind::Unevaluated(uv) = ct.kind() {
                v.push(("name", J::S(pretty_def(tcx, uv.def))));
            }
        }
        let is_scalar_ty = ty.is_integral() || ty.is_bool() || ty.is_char() || ty.is_floating_point();
        if is_scalar_ty {
            let r = std::panic::catch_unwind(std::panic::AssertUnwindSafe(|| {
                c.const_.try_eval_scalar_int(tcx, self.typing_env)
            }));
            if let Ok(Some(si)) = r {
                let size = si.size();
                let bits = si.to_bits(size);
                if ty.is_signed() {
                    let sh = 128 - size.bits();
                    let val = ((bits as i128) << sh) >> sh;
                    v.push(("v", J::S(val.to_string())));
                } else if ty.is_floating_point() {
                    let f = if size.bits() == 64 {
                        f64::from_bits(bits as u64)
                    } else if size.bits() == 32 {
                        f32::from_bits(bits as u32) as f64
                    } else {
                        f64::NAN
                    };
                    v.push(("v", J::S(format!("{:?}", f))));
                } else {
                    v.push(("v", J::S(bits.to_string())));
                }
            }
        }
        v.push(("repr", J::S(fix_crate(tcx, pp!(format!("{}", c.const_))))));
        J::O(v)
    }

    fn operand(&self, o: &Operand<'tcx>) -> J {
        match o {
            Operand::Copy(p) => J::O(vec![("k", J::s("copy")), ("place", self.place(p))]),
            Operand::Move(p) => J::O(vec![("k", J::s("move")), ("place", self.place(p))]),
            Operand::Constant(c) => self.constant(c),
            #[allow(unreachable_patterns)]
            _ => J::O(vec![("k", J::s("other")), ("repr", J::S(format!("{:?}", o)))]),
        }
    }

    fn rvalue(&self, rv: &Rvalue<'tcx>) -> J {
        let tcx = self.tcx;
        match rv {
            Rvalue::Use(o, ..) => J::O(vec![("k", J::s("use")), ("o", self.operand(o))]),
            Rvalue::Repeat(o, n) => J::O(vec![
                ("k", J::s("repeat")),
                ("o", self.operand(o)),
                ("n", J::S(pp!(format!("{}", n)))),
            ]),
            Rvalue::Ref(_, bk, p) => J::O(vec![
                ("k", J::s("ref")),
                (
                    "bk",
                    J::s(match bk {
                        BorrowKind::Shared => "shared",
                        BorrowKind::Fake(_) => "fake",
                        BorrowKind::Mut { .. } => "mut",
                    }),
                ),
                ("place", self.place(p)),
            ]),
            Rvalue::RawPtr(_, p) => J::O(vec![("k", J::s("rawptr")), ("place", self.place(p))]),
            Rvalue::Cast(kind, o, ty) => J::O(vec![
                ("k", J::s("cast")),
                ("ck", J::S(format!("{:?}", kind))),
                ("o", self.operand(o)),
                ("ty", J::S(ty_str(tcx, *ty))),
            ]),
            Rvalue::BinaryOp(op, b) => J::O(vec![
                ("k", J::s("binop")),
                ("op", J::S(format!("{:?}", op))),
                ("l", self.operand(&b.0)),
                ("r", self.operand(&b.1)),
            ]),
            Rvalue::UnaryOp(op, o) => J::O(vec![
                ("k", J::s("unop")),
                ("op", J::S(format!("{:?}", op))),
                ("o", self.operand(o)),
            ]),
            Rvalue::Discriminant(p) => {
                let pty = p.ty(self.body, tcx).ty;
                let mut variants = Vec::new();
                if let ty::Adt(def, _) = pty.kind() {
                    if def.is_enum() {
                        for (vi, d) in def.discriminants(tcx) {
                            variants.push(J::A(vec![
                                J::S(d.val.to_string()),
                                J::S(def.variant(vi).name.to_string()),
                            ]));
                        }
                    }
                }
                J::O(vec![
                    ("k", J::s("discr")),
                    ("place", self.place(p)),
                    ("variants", J::A(variants)),
                ])
            }
            Rvalue::Aggregate(kind, ops) => {
                let mut v: Vec<(&'static str, J)> = vec![("k", J::s("agg"))];
                match &**kind {
                    AggregateKind::Array(t) => {
                        v.push(("ak", J::s("array")));
                        v.push(("ety", J::S(ty_str(tcx, *t))));
                    }
                    AggregateKind::Tuple => v.push(("ak", J::s("tuple"))),
                    AggregateKind::Adt(did, vidx, _, _, active) => {
                        v.push(("ak", J::s("adt")));
                        v.push(("adt", J::S(pretty_def(tcx, *did))));
                        let def = tcx.adt_def(*did);
                        let var = def.variant(*vidx);
                        v.push(("variant", J::S(var.name.to_string())));
                        let names: Vec<J> = match active {
                            Some(a) => vec![J::S(var.fields[*a].name.to_string())],
                            None => var.fields.iter().map(|f| J::S(f.name.to_string())).collect(),
                        };
                        v.push(("fields", J::A(names)));
                    }
                    AggregateKind::Closure(did, _) => {
                        v.push(("ak", J::s("closure")));
                        v.push(("def", J::S(pretty_def(tcx, *did))));
                        v.push(("id", J::S(canon_def(tcx, *did))));
                        if let Some(l) = did.as_local() {
                            let caps = tcx.closure_captures(l);
                            v.push((
                                "fields",
                                J::A(caps.iter().map(|c| J::S(c.to_symbol().to_string())).collect()),
                            ));
                        }
                    }
                    AggregateKind::Coroutine(did, _) => {
                        v.push(("ak", J::s("coroutine")));
                        v.push(("def", J::S(pretty_def(tcx, *did))));
                        v.push(("id", J::S(canon_def(tcx, *did))));
                        if let Some(l) = did.as_local() {
                            let caps = tcx.closure_captures(l);
                            v.push((
                                "fields",
                                J::A(caps.iter().map(|c| J::S(c.to_symbol().to_string())).collect()),
                            ));
                        }
                    }
                    AggregateKind::CoroutineClosure(did, _) => {
                        v.push(("ak", J::s("coroutine_closure")));
                        v.push(("def", J::S(pretty_def(tcx, *did))));
                        v.push(("id", J::S(canon_def(tcx, *did))));
                    }
                    AggregateKind::RawPtr(..) => v.push(("ak", J::s("rawptr"))),
                }
                v.push(("ops", J::A(ops.iter().map(|o| self.operand(o)).collect())));
                J::O(v)
            }
            Rvalue::CopyForDeref(p) => J::O(vec![
                ("k", J::s("use")),
                ("o", J::O(vec![("k", J::s("copy")), ("place", self.place(p))])),
            ]),
            Rvalue::ThreadLocalRef(d) => {
                J::O(vec![("k", J::s("tls")), ("def", J::S(pretty_def(tcx, *d)))])
            }
            #[allow(unreachable_patterns)]
            other => J::O(vec![("k", J::s("other")), ("repr", J::S(format!("{:?}", other)))]),
        }
    }

    fn stmt(&self, s: &Statement<'tcx>) -> Option<J> {
        let (_, line, exp) = span_info(self.tcx, s.source_info.span);
        match &s.kind {
            StatementKind::Assign(b) => Some(J::O(vec![
                ("k", J::s("assign")),
                ("place", self.place(&b.0)),
                ("rv", self.rvalue(&b.1)),
                ("line", J::I(line)),
                ("exp", J::B(exp)),
                ("mac", J::opt_s(mac_info(self.tcx, s.source_info.span))),
            ])),
            StatementKind::SetDiscriminant { place, variant_index } => Some(J::O(vec![
                ("k", J::s("setdiscr")),
                ("place", self.place(place)),
                ("variant", J::I(variant_index.as_usize() as i128)),
                ("line", J::I(line)),
            ])),
            StatementKind::Intrinsic(i) => Some(J::O(vec![
                ("k", J::s("intrinsic")),
                ("repr", J::S(format!("{:?}", i))),
                ("line", J::I(line)),
            ])),
            _ => None,
        }
    }

    fn term(&self, t: &Terminator<'tcx>) -> J {
        let tcx = self.tcx;
        let (_, line, exp) = span_info(tcx, t.source_info.span);
        let bb = |b: &BasicBlock| J::I(b.as_usize() as i128);
        let mut v: Vec<(&'static str, J)> = Vec::new();
        match &t.kind {
            TerminatorKind::Goto { target } => {
                v.push(("k", J::s("goto")));
                v.push(("t", bb(target)));
            }
            TerminatorKind::SwitchInt { discr, targets } => {
                v.push(("k", J::s("switch")));
                v.push(("d", self.operand(discr)));
                let dty = discr.ty(self.body, tcx);
                v.push(("dty", J::S(ty_str(tcx, dty))));
                let mut ts = Vec::new();
                for (val, tgt) in targets.iter() {
                    let sval = if dty.is_signed() {
                        let bits = dty.primitive_size(tcx).bits();
                        let sh = 128 - bits;
                        (((val as i128) << sh) >> sh).to_string()
                    } else {
                        val.to_string()
                    };
                    ts.push(J::A(vec![J::S(sval), bb(&tgt)]));
                }
                v.push(("targets", J::A(ts)));
                v.push(("otherwise", bb(&targets.otherwise())));
            }
            TerminatorKind::UnwindResume => v.push(("k", J::s("resume"))),
            TerminatorKind::UnwindTerminate(_) => v.push(("k", J::s("terminate"))),
            TerminatorKind::Return => v.push(("k", J::s("return"))),
            TerminatorKind::Unreachable => v.push(("k", J::s("unreachable"))),
            TerminatorKind::Drop { place, target, .. } => {
                v.push(("k", J::s("drop")));
                v.push(("place", self.place(place)));
                v.push(("t", bb(target)));
            }
            TerminatorKind::Call { func, args, destination, target, .. } => {
                v.push(("k", J::s("call")));
                v.push(("func", self.operand(func)));
                v.push(("args", J::A(args.iter().map(|a| self.operand(&a.node)).collect())));
                v.push(("dest", self.place(destination)));
                v.push(("t", match target {
                    Some(t) => bb(t),
                    None => J::Null,
                }));
            }
            TerminatorKind::TailCall { func, args, .. } => {
                v.push(("k", J::s("tailcall")));
                v.push(("func", self.operand(func)));
                v.push(("args", J::A(args.iter().map(|a| self.operand(&a.node)).collect())));
            }
            TerminatorKind::Assert { cond, expected, msg, target, .. } => {
                v.push(("k", J::s("assert")));
                v.push(("cond", self.operand(cond)));
                v.push(("expected", J::B(*expected)));
                let (mk, ops): (&str, Vec<J>) = match &**msg {
                    AssertKind::BoundsCheck { len, index } => {
                        ("BoundsCheck", vec![self.operand(len), self.operand(index)])
                    }
                    AssertKind::Overflow(op, a, b) => {
                        v.push(("binop", J::S(format!("{:?}", op))));
                        ("Overflow", vec![self.operand(a), self.operand(b)])
                    }
                    AssertKind::OverflowNeg(a) => ("OverflowNeg", vec![self.operand(a)]),
                    AssertKind::DivisionByZero(a) => ("DivisionByZero", vec![self.operand(a)]),
                    AssertKind::RemainderByZero(a) => ("RemainderByZero", vec![self.operand(a)]),
                    AssertKind::ResumedAfterReturn(_) => ("ResumedAfterReturn", vec![]),
                    AssertKind::ResumedAfterPanic(_) => ("ResumedAfterPanic", vec![]),
                    AssertKind::ResumedAfterDrop(_) => ("ResumedAfterDrop", vec![]),
                    AssertKind::MisalignedPointerDereference { .. } => ("Misaligned", vec![]),
                    AssertKind::NullPointerDereference => ("NullDeref", vec![]),
                    AssertKind::InvalidEnumConstruction(_) => ("InvalidEnum", vec![]),
                };
                v.push(("msg", J::s(mk)));
                v.push(("ops", J::A(ops)));
                v.push(("t", bb(target)));
            }
            TerminatorKind::Yield { value, resume, resume_arg, .. } => {
                v.push(("k", J::s("yield")));
                v.push(("value", self.operand(value)));
                v.push(("t", bb(resume)));
                v.push(("resume_arg", self.place(resume_arg)));
            }
            TerminatorKind::CoroutineDrop => v.push(("k", J::s("coroutine_drop"))),
            TerminatorKind::FalseEdge { real_target, imaginary_target } => {
                v.push(("k", J::s("goto")));
                v.push(("t", bb(real_target)));
                v.push(("imag", bb(imaginary_target)));
            }
            TerminatorKind::FalseUnwind { real_target, .. } => {
                v.push(("k", J::s("goto")));
                v.push(("t", bb(real_target)));
                v.push(("false_unwind", J::B(true)));
            }
            TerminatorKind::InlineAsm { .. } => v.push(("k", J::s("asm"))),
        }
        v.push(("line", J::I(line)));
        v.push(("exp", J::B(exp)));
        v.push(("mac", J::opt_s(mac_info(tcx, t.source_info.span))));
        J::O(v)
    }
}

pub fn ser_body<'tcx>(
    tcx: TyCtxt<'tcx>,
    def: LocalDefId,
    body: &Body<'tcx>,
    promoted: Option<usize>,
) -> J {
    let did = def.to_def_id();
    let typing_env = ty::TypingEnv::post_analysis(tcx, did);
    let cx = Cx { tcx, body, owner: def, typing_env };
    let _ = cx.owner;
    let (file, line, _) = span_info(tcx, body.span);
    let (_, line_hi, _) = span_info(tcx, body.span.shrink_to_hi());
    let mut path = pretty_def(tcx, did);
    let mut id = canon_def(tcx, did);
    if let Some(p) = promoted {
        path = format!("{}::{{promoted#{}}}", path, p);
        id = format!("{}::{{promoted#{}}}", id, p);
    }
    let kind = format!("{:?}", tcx.def_kind(did));
    let parent = if tcx.is_closure_like(did) {
        let p = tcx.local_parent(def).to_def_id();
        J::S(canon_def(tcx, p))
    } else {
        J::Null
    };
    // local names
    let mut names: Vec<Option<String>> = vec![None; body.local_decls.len()];
    for vdi in &body.var_debug_info {
        if let VarDebugInfoContents::Place(p) = &vdi.value {
            if p.projection.is_empty() {
                names[p.local.as_usize()] = Some(vdi.name.to_string());
            }
        }
    }
    let locals: Vec<J> = body
        .local_decls
        .iter_enumerated()
        .map(|(l, d)| {
            J::O(vec![
                ("ty", J::S(ty_str(tcx, d.ty))),
                ("name", J::opt_s(names[l.as_usize()].clone())),
                ("user", J::B(d.is_user_variable())),
            ])
        })
        .collect();
    // upvar debug names (closures): var_debug_info entries that project from _1
    let mut upvars = Vec::new();
    for vdi in &body.var_debug_info {
        if let VarDebugInfoContents::Place(p) = &vdi.value {
            if !p.projection.is_empty() {
                upvars.push(J::A(vec![J::S(vdi.name.to_string()), cx.place(p)]));
            }
        }
    }
    let blocks: Vec<J> = body
        .basic_blocks
        .iter()
        .map(|b| {
            J::O(vec![
                ("cleanup", J::B(b.is_cleanup)),
                ("stmts", J::A(b.statements.iter().filter_map(|s| cx.stmt(s)).collect())),
                ("term", cx.term(b.terminator())),
            ])
        })
        .collect();
    let ckind = match tcx.coroutine_kind(did) {
        Some(k) => J::S(format!("{:?}", k)),
        None => J::Null,
    };
    J::O(vec![
        ("path", J::S(path)),
        ("id", J::S(id)),
        ("kind", J::S(kind)),
        ("coroutine", ckind),
        ("parent", parent),
        ("promoted", match promoted { Some(p) => J::I(p as i128), None => J::Null }),
        ("file", J::S(file)),
        ("line", J::I(line)),
        ("line_hi", J::I(line_hi)),
        ("arg_count", J::I(body.arg_count as i128)),
        ("locals", J::A(locals)),
        ("upvars", J::A(upvars)),
        ("blocks", J::A(blocks)),
    ])
}

fn vis_str(tcx: TyCtxt<'_>, did: DefId) -> String {
    match tcx.visibility(did) {
        ty::Visibility::Public => "pub".to_string(),
        ty::Visibility::Restricted(m) => format!("restricted({})", canon_def(tcx, m)),
    }
}

pub fn dump(tcx: TyCtxt<'_>) {
    let crate_name = tcx.crate_name(LOCAL_CRATE).to_string();
    let mut adts = Vec::new();
    let mut consts = Vec::new();
    let mut fns = Vec::new();
    let mut impls = Vec::new();
    let mut owners = Vec::new();

    for ldid in tcx.hir_body_owners() {
        owners.push(J::S(canon_def(tcx, ldid.to_def_id())));
        // force the query so that every owner is captured
        let _ = tcx.mir_promoted(ldid);
    }

    for ldid in tcx.hir_crate_items(()).definitions() {
        let did = ldid.to_def_id();
        match tcx.def_kind(did) {
            DefKind::Struct | DefKind::Enum | DefKind::Union => {
                let def = tcx.adt_def(did);
                let mut variants = Vec::new();
                let discrs: Vec<String> = if def.is_enum() {
                    def.discriminants(tcx).map(|(_, d)| d.val.to_string()).collect()
                } else {
                    vec!["0".to_string()]
                };
                for (i, var) in def.variants().iter().enumerate() {
                    let fields: Vec<J> = var
                        .fields
                        .iter()
                        .map(|f| {
                            let fty = tcx.type_of(f.did).instantiate_identity().skip_norm_wip();
                            J::O(vec![
                                ("name", J::S(f.name.to_string())),
                                ("ty", J::S(ty_str(tcx, fty))),
                                ("vis", J::S(vis_str(tcx, f.did))),
                            ])
                        })
                        .collect();
                    variants.push(J::O(vec![
                        ("name", J::S(var.name.to_string())),
                        ("discr", J::S(discrs.get(i).cloned().unwrap_or_default())),
                        ("fields", J::A(fields)),
                    ]));
                }
                let (file, line, _) = span_info(tcx, tcx.def_span(did));
                adts.push(J::O(vec![
                    ("path", J::S(pretty_def(tcx, did))),
                    ("id", J::S(canon_def(tcx, did))),
                    ("kind", J::S(format!("{:?}", tcx.def_kind(did)))),
                    ("vis", J::S(vis_str(tcx, did))),
                    ("repr", J::S(format!("{:?}", def.repr().int))),
                    ("variants", J::A(variants)),
                    ("file", J::S(file)),
                    ("line", J::I(line)),
                ]));
            }
            DefKind::Const { .. } | DefKind::AssocConst { .. } => {
                let generics = tcx.generics_of(did);
                let mut val = J::Null;
                let ty = tcx.type_of(did).instantiate_identity().skip_norm_wip();
                if generics.count() == 0 && !generics.has_self && tcx.hir_maybe_body_owned_by(ldid).is_some() {
                    let r = std::panic::catch_unwind(std::panic::AssertUnwindSafe(|| {
                        tcx.const_eval_poly(did)
                    }));
                    if let Ok(Ok(cv)) = r {
                        if let Some(si) = cv.try_to_scalar_int() {
                            let size = si.size();
                            let bits = si.to_bits(size);
                            if ty.is_signed() {
                                let sh = 128 - size.bits();
                                val = J::S((((bits as i128) << sh) >> sh).to_string());
                            } else if ty.is_floating_point() {
                                let f = if size.bits() == 64 {
                                    f64::from_bits(bits as u64)
                                } else {
                                    f32::from_bits(bits as u32) as f64
                                };
                                val = J::S(format!("{:?}", f));
                            } else if ty.is_integral() || ty.is_bool() || ty.is_char() {
                                val = J::S(bits.to_string());
                            }
                        }
                    }
                }
                consts.push(J::O(vec![
                    ("path", J::S(pretty_def(tcx, did))),
                    ("id", J::S(canon_def(tcx, did))),
                    ("ty", J::S(ty_str(tcx, ty))),
                    ("v", val),
                ]));
            }
            DefKind::Fn | DefKind::AssocFn => {
                let sig = tcx.fn_sig(did).instantiate_identity().skip_norm_wip();
                let (file, line, _) = span_info(tcx, tcx.def_span(did));
                let inputs: Vec<J> = sig
                    .skip_binder()
                    .inputs()
                    .iter()
                    .map(|t| J::S(fix_crate(tcx, pp!(format!("{:?}", t)))))
                    .collect();
                let output = fix_crate(tcx, pp!(format!("{:?}", sig.skip_binder().output())));
                fns.push(J::O(vec![
                    ("path", J::S(pretty_def(tcx, did))),
                    ("id", J::S(canon_def(tcx, did))),
                    ("vis", J::S(vis_str(tcx, did))),
                    ("sig", J::S(fix_crate(tcx, pp!(format!("{:?}", sig))))),
                    ("inputs", J::A(inputs)),
                    ("output", J::S(output)),
                    ("has_body", J::B(tcx.hir_maybe_body_owned_by(ldid).is_some())),
                    ("is_async", J::B(tcx.asyncness(did).is_async())),
                    ("file", J::S(file)),
                    ("line", J::I(line)),
                ]));
            }
            DefKind::Impl { of_trait } => {
                let self_ty = tcx.type_of(did).instantiate_identity().skip_norm_wip();
                let tr = if of_trait {
                    let tref = tcx.impl_trait_ref(did).instantiate_identity().skip_norm_wip();
                    J::S(fix_crate(tcx, pp!(format!("{}", tref.print_only_trait_path()))))
                } else {
                    J::Null
                };
                let trait_def = if of_trait {
                    let tref = tcx.impl_trait_ref(did).instantiate_identity().skip_norm_wip();
                    J::S(pretty_def(tcx, tref.def_id))
                } else {
                    J::Null
                };
                let items: Vec<J> = tcx
                    .associated_items(did)
                    .in_definition_order()
                    .map(|it| {
                        J::O(vec![
                            ("name", J::S(it.opt_name().map(|n| n.to_string()).unwrap_or_default())),
                            ("id", J::S(canon_def(tcx, it.def_id))),
                            ("path", J::S(pretty_def(tcx, it.def_id))),
                            (
                                "trait_item",
                                match it.trait_item_def_id() {
                                    Some(t) => J::S(canon_def(tcx, t)),
                                    None => J::Null,
                                },
                            ),
                        ])
                    })
                    .collect();
                let (file, line, exp) = span_info(tcx, tcx.def_span(did));
                impls.push(J::O(vec![
                    ("id", J::S(canon_def(tcx, did))),
                    ("self_ty", J::S(ty_str(tcx, self_ty))),
                    ("trait", tr),
                    ("trait_def", trait_def),
                    ("items", J::A(items)),
                    ("file", J::S(file)),
                    ("line", J::I(line)),
                    ("derived", J::B(exp)),
                ]));
            }
            _ => {}
        }
    }

    let bodies = std::mem::take(&mut *crate::BODIES.lock().unwrap());
    let mut out = String::new();
    out.push_str("{\"crate\":");
    J::S(crate_name.clone()).write(&mut out);
    out.push_str(",\"crate_types\":");
    J::A(tcx.crate_types().iter().map(|t| J::S(format!("{:?}", t))).collect()).write(&mut out);
    out.push_str(",\"cfg_test\":");
    J::B(tcx.sess.is_test_crate()).write(&mut out);
    out.push_str(",\"owners\":");
    J::A(owners).write(&mut out);
    out.push_str(",\"adts\":");
    J::A(adts).write(&mut out);
    out.push_str(",\"consts\":");
    J::A(consts).write(&mut out);
    out.push_str(",\"fns\":");
    J::A(fns).write(&mut out);
    out.push_str(",\"impls\":");
    J::A(impls).write(&mut out);
    out.push_str(",\"bodies\":[");
    for (i, b) in bodies.iter().enumerate() {
        if i > 0 {
            out.push(',');
        }
        out.push('\n');
        out.push_str(b);
    }
    out.push_str("]}\n");

    let dir = std::env::var("MIRFACTS_OUT").unwrap();
    let kind = tcx
        .crate_types()
        .first()
        .map(|t| format!("{:?}", t).to_lowercase())
        .unwrap_or_else(|| "unknown".to_string());
    let test = if tcx.sess.is_test_crate() { "-test" } else { "" };
    let path = format!("{}/{}-{}{}.json", dir, crate_name, kind, test);
    let tmp = format!("{}.tmp{}", path, std::process::id());
    std::fs::write(&tmp, out).expect("mirfacts: cannot write facts");
    std::fs::rename(&tmp, &path).expect("mirfacts: cannot rename facts");
}
