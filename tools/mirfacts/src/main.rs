//! mirfacts: rustc_private driver that dumps analysis-phase MIR (the `mir_promoted`
//! stage, i.e. before the coroutine state transform and drop elaboration) plus
//! item tables of a crate as one JSON fact file.
//!
//! Used as RUSTC_WORKSPACE_WRAPPER: argv = [mirfacts, <rustc>, args...].
//! Output: $MIRFACTS_OUT/<crate>-<kind>-<pid>.json (one write per process).
#![feature(rustc_private)]
#![allow(clippy::all)]

extern crate rustc_abi;
extern crate rustc_data_structures;
extern crate rustc_driver;
extern crate rustc_hir;
extern crate rustc_index;
extern crate rustc_interface;
extern crate rustc_middle;
extern crate rustc_session;
extern crate rustc_span;

mod json;
mod ser;

use std::sync::Mutex;
use std::sync::OnceLock;

use rustc_driver::{Callbacks, Compilation};
use rustc_hir::def_id::LocalDefId;
use rustc_interface::interface;
use rustc_middle::ty::TyCtxt;

pub static BODIES: Mutex<Vec<String>> = Mutex::new(Vec::new());

type MirPromotedFn = for<'tcx> fn(
    TyCtxt<'tcx>,
    LocalDefId,
) -> (
    &'tcx rustc_data_structures::steal::Steal<rustc_middle::mir::Body<'tcx>>,
    &'tcx rustc_data_structures::steal::Steal<
        rustc_index::IndexVec<rustc_middle::mir::Promoted, rustc_middle::mir::Body<'tcx>>,
    >,
);

static DEFAULT_MIR_PROMOTED: OnceLock<MirPromotedFn> = OnceLock::new();

fn my_mir_promoted<'tcx>(
    tcx: TyCtxt<'tcx>,
    def: LocalDefId,
) -> (
    &'tcx rustc_data_structures::steal::Steal<rustc_middle::mir::Body<'tcx>>,
    &'tcx rustc_data_structures::steal::Steal<
        rustc_index::IndexVec<rustc_middle::mir::Promoted, rustc_middle::mir::Body<'tcx>>,
    >,
) {
    let r = (DEFAULT_MIR_PROMOTED.get().unwrap())(tcx, def);
    {
        let body = r.0.borrow();
        let promoted = r.1.borrow();
        let mut out = Vec::new();
        out.push(ser::ser_body(tcx, def, &body, None));
        for (p, pb) in promoted.iter_enumerated() {
            out.push(ser::ser_body(tcx, def, pb, Some(p.as_usize())));
        }
        let mut g = BODIES.lock().unwrap();
        for j in out {
            let mut s = String::new();
            j.write(&mut s);
            g.push(s);
        }
    }
    r
}

struct Cb;

impl Callbacks for Cb {
    fn config(&mut self, config: &mut interface::Config) {
        config.override_queries = Some(|_sess, providers| {
            let _ = DEFAULT_MIR_PROMOTED.set(providers.queries.mir_promoted);
            providers.queries.mir_promoted = my_mir_promoted;
        });
    }

    fn after_analysis<'tcx>(
        &mut self,
        _compiler: &interface::Compiler,
        tcx: TyCtxt<'tcx>,
    ) -> Compilation {
        ser::dump(tcx);
        Compilation::Continue
    }
}

fn main() {
    let mut args: Vec<String> = std::env::args().collect();
    // RUSTC_WORKSPACE_WRAPPER: argv[1] is the real rustc path
    if args.len() > 1 && (args[1].ends_with("rustc") || args[1].contains("/rustc")) {
        args.remove(1);
    }
    let is_build_script = args
        .iter()
        .any(|a| a.starts_with("build_script_"));
    let probing = args.iter().any(|a| a == "-vV" || a == "--print" || a.starts_with("--print="))
        && !args.iter().any(|a| a == "--crate-name");
    if is_build_script || probing || std::env::var("MIRFACTS_OUT").is_err() {
        rustc_driver::run_compiler(&args, &mut Plain);
        return;
    }
    rustc_driver::run_compiler(&args, &mut Cb);
}

struct Plain;
impl Callbacks for Plain {}
