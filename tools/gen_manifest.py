#!/usr/bin/env python3
"""Generate /verif/MANIFEST.json from the rule modules' metadata."""
import importlib
import json
import os
import sys

VERIF = os.path.dirname(os.path.dirname(os.path.abspath(__file__)))
sys.path.insert(0, VERIF)

ALL = ["C%02d" % i for i in range(1, 46)]

NA_REASONS = {
    "C06": "quantifies over floating-point trajectories of the Kalman filter (finiteness, non-negative "
           "variance); no guard or structural necessary condition exists in the code to check and numeric "
           "abstract interpretation is out of reach for this technique family (DESIGN.md section 7)",
}


def main():
    checks = []
    na = []
    for pid in ALL:
        path = os.path.join(VERIF, "rules", pid + ".py")
        if not os.path.exists(path):
            na.append({"property_id": pid,
                       "reason": NA_REASONS.get(pid, "rules not implemented yet at this commit (work in progress; see DESIGN.md section 6)")})
            continue
        m = importlib.import_module("rules." + pid)
        nd = list(getattr(m, "NOT_DECIDED", []))
        checks.append({
            "property_id": pid,
            "quick_cmd": "./check %s --tier quick" % pid,
            "thorough_cmd": "./check %s --tier thorough" % pid,
            "evidence_file": "/verif/evidence/%s.json" % pid,
            "replay_cmd_template": "./check %s --replay {path}" % pid,
            "engine": "mirfacts+rules",
            "level_claimed": {
                "category": "other",
                "text": getattr(m, "LEVEL_TEXT", None) or (
                    "Static structural rules (must-pass-through guards, value provenance, path counts, "
                    "table agreement, who-may-call) decided on the type-checked MIR of /repo's current tree; "
                    "each rule is a necessary condition of the behaviour that holds on every path, which is the "
                    "quantifier the tests cannot cover. " + getattr(m, "EXPLANATION", "")),
                "design_ref": "DESIGN.md section 6, %s" % pid,
            },
            "level_note": ("Trusted: rustc nightly front end/MIR construction, the mirfacts driver, engine/core.py, "
                           "documented contracts of std and external crates. Not decided by this check: "
                           + ("; ".join(nd) if nd else "nothing beyond the stated trusted base") + "."),
            "technique": getattr(m, "TECHNIQUE", "static analysis: custom MIR dataflow/dominance rules (rustc_private driver)"),
        })
    man = {
        "version": 1,
        "setup_cmd": "./setup.sh",
        "hooks": {
            "guard": "pendulum_project_ntpd_rs_verif",
            "enable": "no hooks are needed: the rustc_private driver reads crate-private items directly "
                      "(RUSTC_WORKSPACE_WRAPPER=tools/mirfacts under cargo +nightly check --workspace)",
            "baseline_off_cmd": "cd /repo && cargo test --workspace --no-fail-fast --offline",
            "source_commits": [],
            "add_only": True,
        },
        "engines": [
            {"name": "mirfacts", "path": "tools/mirfacts",
             "serves_properties": [c["property_id"] for c in checks],
             "kind_free_text": "rustc_private driver dumping mir_promoted-stage MIR + item tables as JSON facts"},
            {"name": "engine", "path": "engine",
             "serves_properties": [c["property_id"] for c in checks],
             "kind_free_text": "Python analyses over the facts: CFG, term recovery, must-pass-through guards, "
                               "path counting, call graph, panic reachability"},
        ],
        "checks": checks,
        "notes": "All checks are static (no ntpd-rs code is executed). Known findings: known_findings.json.",
        "not_applicable": na,
    }
    with open(os.path.join(VERIF, "MANIFEST.json"), "w") as f:
        json.dump(man, f, indent=1)
    print("MANIFEST.json: %d checks, %d not applicable" % (len(checks), len(na)))


if __name__ == "__main__":
    main()
