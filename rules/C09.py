"""C09 — kiss-o'-death codes are handled conservatively."""
import re

from engine.rulelib import *
from engine.run import site_desc
from rules.C07 import effect_sites

EXPLANATION = (
    "FLOW/GUARD/PRED rules on NtpSource::handle_incoming/handle_timer/process_message and the NtpPacket kiss "
    "predicates: the RATE branch writes only remote_min_poll_interval = max(inc(remote_min), last_poll_interval); "
    "Demobilize is built only for RSTR/DENY under NTS (else only the deny flag is set) and by the timer only when "
    "unreachable with the flag; the NTS-NAK and unknown-KISS regions contain no effect; every kiss predicate "
    "conjoins stratum == 0."
)
NOT_DECIDED = ["numeric size of one poll step beyond PollInterval::inc's definition (see C10)"]

SRC = 'ntp_proto::source::NtpSource'
PKT = 'ntp_proto::packet::NtpPacket'

RATE_T = fact_call(r'NtpPacket::is_kiss_rate$', True, [None, r'^self\.last_poll_interval$'])
DENYLIKE_T = any_of(fact_call(r'NtpPacket::is_kiss_rstr$', True), fact_call(r'NtpPacket::is_kiss_deny$', True))
NTS_SOME = any_of(fact_call(r'Option::is_some$', True, [r'^self\.nts$']), fact_is(r'^self\.nts$', 'Some'))
NTS_NONE = any_of(fact_call(r'Option::is_some$', False, [r'^self\.nts$']), fact_is(r'^self\.nts$', 'None'))


def r1(ctx):
    ctx.rule('C09-R1', 'RATE region of handle_incoming: the only effect is remote_min_poll_interval = '
             'Ord::max(remote_min_poll_interval.inc(limits), last_poll_interval)')
    b = ctx.P.body(SRC + '::handle_incoming')
    n, region = region_after(b, RATE_T)
    ctx.check('handle_incoming|rate-edge', n == 1, 'expected exactly one is_kiss_rate(.., last_poll_interval) true edge', sample=n)
    effs = [(s, w) for s, w in effect_sites(ctx.P, b) if s.bb in region]
    kinds = sorted(w for _, w in effs)
    ctx.check('handle_incoming|rate-region-effects', kinds == ['write:remote_min_poll_interval'],
              'RATE region effects are %s, expected only a write of remote_min_poll_interval' % kinds, sample=kinds)
    for s, w in effs:
        if w == 'write:remote_min_poll_interval':
            v = written_value(b, s)
            ok = re.match(r'^Ord::max\(PollInterval::inc\(self\.remote_min_poll_interval, self\.source_config\.poll_interval_limits\), self\.last_poll_interval\)$', v) is not None \
                or re.match(r'^Ord::max\(self\.last_poll_interval, PollInterval::inc\(self\.remote_min_poll_interval, self\.source_config\.poll_interval_limits\)\)$', v) is not None
            ctx.check('handle_incoming|rate-value', ok, 'RATE handling stores `%s`' % v, s.where(), sample=v)


def r2(ctx):
    ctx.rule('C09-R2', 'Demobilize from handle_incoming only under (RSTR or DENY) and nts.is_some(); without NTS only '
             'have_deny_rstr_response = true; handle_timer demobilises only if !reachable, tries >= 3 and the flag; '
             'process_message clears the flag')
    P = ctx.P
    b = P.body(SRC + '::handle_incoming')
    demob = some(b.aggregates(r'NtpSourceAction$', 'Demobilize'), 'Demobilize in handle_incoming')
    for s in demob:
        ctx.guard(b, s, 'rstr-or-deny', DENYLIKE_T)
        ctx.guard(b, s, 'nts-some', NTS_SOME)
    n, region = region_after(b, DENYLIKE_T)
    ctx.check('handle_incoming|denylike-edges', n >= 2, 'expected the rstr and deny true edges', sample=n)
    effs = [(s, w) for s, w in effect_sites(P, b) if s.bb in region]
    kinds = sorted(set(w for _, w in effs))
    ctx.check('handle_incoming|deny-region-effects', kinds == ['action:Demobilize', 'write:have_deny_rstr_response'],
              'DENY/RSTR region effects are %s' % kinds, sample=kinds)
    for s, w in effs:
        if w == 'write:have_deny_rstr_response':
            ctx.guard(b, s, 'nts-none', NTS_NONE)
            v = written_value(b, s)
            ctx.check('handle_incoming|deny-flag-value', v == '1', 'deny flag set to %s' % v, s.where(), sample=v)
    other = [s for s in b.aggregates(r'NtpSourceAction$') if s.data['rv']['variant'] != 'Demobilize']
    ctx.check('handle_incoming|no-other-actions', not other, 'handle_incoming builds other actions directly: %s' %
              [s.data['rv']['variant'] for s in other], sample=len(other))
    t = P.body(SRC + '::handle_timer')
    for s in some(t.aggregates(r'NtpSourceAction$', 'Demobilize'), 'Demobilize in handle_timer'):
        ctx.guard(t, s, 'unreachable', fact_call(r'Reach::is_reachable$', False, [r'^self\.reach$']))
        ctx.guard(t, s, 'tries>=3', fact_cmp('Ge', r'^self\.tries$', r'^STARTUP_TRIES_THRESHOLD=3$'))
        ctx.guard(t, s, 'deny-flag', lambda f: f.kind == 'bool' and f.pol and S(f.term) == 'self.have_deny_rstr_response')
    pm = P.body(SRC + '::process_message')
    ws = [s for s, w in self_writes(pm) if w == 'have_deny_rstr_response']
    ctx.check('process_message|clears-deny-flag', len(ws) == 1 and written_value(pm, ws[0]) == '0' and
              blocks_must_pass_block(pm, pm.returns()[0].bb, [ws[0].bb]),
              'process_message does not clear have_deny_rstr_response on every path', sample=[written_value(pm, w) for w in ws])
    allw = sorted({bd.npath for bd, s in P.field_writers('have_deny_rstr_response', r'NtpSource$')})
    ctx.check('who-writes-have_deny_rstr_response', set(allw) <= {SRC + '::handle_incoming', SRC + '::process_message', SRC + '::new'},
              'unexpected writer of have_deny_rstr_response: %s' % allw, sample=allw)


def r3(ctx):
    ctx.rule('C09-R3', 'the NTS-NAK region and the unknown-KISS region of handle_incoming contain no effect site '
             '(no write through self, no action, no controller call)')
    b = ctx.P.body(SRC + '::handle_incoming')
    for name, pred in (('ntsn', fact_call(r'NtpPacket::is_kiss_ntsn$', True)), ('unknown-kiss', fact_call(r'NtpPacket::is_kiss$', True))):
        n, region = region_after(b, pred)
        ctx.check('handle_incoming|%s-edge' % name, n == 1, 'expected one `%s` true edge' % name, sample=n)
        effs = [(s, w) for s, w in effect_sites(ctx.P, b) if s.bb in region]
        ctx.check('handle_incoming|%s-region-effect-free' % name, not effs,
                  '%s region has effects: %s' % (name, [(w, s.where()) for s, w in effs]), sample=[w for _, w in effs])


def r4(ctx):
    ctx.rule('C09-R4', 'every kiss predicate returns true only if is_kiss() (stratum == 0) holds; is_kiss compares stratum with 0')
    P = ctx.P
    for nm in ('is_kiss_deny', 'is_kiss_rate', 'is_kiss_rstr', 'is_kiss_ntsn'):
        b = P.body(PKT + '::' + nm)
        for s, v in ret_assigns(b):
            if v == '0':
                continue
            ctx.guard(b, s, 'is_kiss', fact_call(r'NtpPacket::is_kiss$', True, [r'^self$']),
                      key='%s|ret:%s|is_kiss' % (nm, 'const' if v == '1' else 'expr'))
    b = P.body(PKT + '::is_kiss')
    vals = [v for _, v in ret_assigns(b)]
    ok = len(vals) >= 1 and all(re.search(r'\.stratum == 0\)$', v) for v in vals)
    ctx.check('is_kiss|stratum==0', ok, 'is_kiss no longer tests stratum == 0: %s' % vals, sample=vals)


def is_kiss_all_versions(ctx):
    """NtpPacket::is_kiss is `stratum == 0` of the header whatever its version (V3, V4 and V5): every kiss predicate and the catch-all arm of
    handle_incoming hang on it, so a version for which it answers false has its kiss packets processed as time measurements."""
    b = ctx.P.body(PKT + '::is_kiss')
    rets = [(s, v) for s, v in ret_assigns(b)]
    cov = set()
    ok = bool(rets)
    for s, v in rets:
        m = re.match(r'^\((.*)\.stratum == 0\)$', v)
        ok = ok and m is not None
        if m:
            cov |= set(re.findall(r'self\.header as (V\d)', m.group(1)))
    ctx.check('is_kiss|stratum-zero-for-every-version', ok and cov == {'V3', 'V4', 'V5'}, 'is_kiss returns %s (versions covered by `stratum == 0`: %s)' % ([v for _, v in rets], sorted(cov)),
              sample=[v for _, v in rets])


def kiss_classes(ctx):
    """The kiss predicates partition kiss packets: handle_incoming tests RATE before DENY/RSTR, so a packet that is both would be
    handled as RATE and never set the DENY mark. NTPv3/4: each predicate is its own kiss code (is_rate/is_deny/is_rstr/is_ntsn of the
    reference id). NTPv5: DENY is poll == NEVER, RATE is poll > own interval AND poll != NEVER, RSTR does not exist."""
    P = ctx.P
    v5 = r'\(self\.header as V5\)\.0'
    is5 = fact_is(r'^self\.header$', ['V5'])
    table = {}
    for nm in ('is_kiss_deny', 'is_kiss_rate', 'is_kiss_rstr', 'is_kiss_ntsn'):
        b = P.body(PKT + '::' + nm)
        for s, v in ret_assigns(b):
            if v == '0':
                continue
            fam = 'V5' if b.must_pass(s.bb, is5) else 'V3V4'
            table.setdefault((nm, fam), []).append((s, v))
    code = {'is_kiss_deny': 'is_deny', 'is_kiss_rate': 'is_rate', 'is_kiss_rstr': 'is_rstr', 'is_kiss_ntsn': 'is_ntsn'}
    is_kiss_all_versions(ctx)
    for nm, c in code.items():
        got = [v for _, v in table.get((nm, 'V3V4'), [])]
        ctx.check('%s|V3V4|own-code' % nm, got == ['ReferenceId::%s(NtpPacket::kiss_code(self))' % c], '%s for NTPv3/4 is %s' % (nm, got), sample=got)
    deny5 = [v for _, v in table.get(('is_kiss_deny', 'V5'), [])]
    ctx.check('is_kiss_deny|V5|poll-never', len(deny5) == 1 and re.match(r'^\(%s\.poll == NEVER=' % v5, deny5[0]) is not None, 'NTPv5 DENY is %s' % deny5, sample=deny5)
    rate5 = table.get(('is_kiss_rate', 'V5'), [])
    b = P.body(PKT + '::is_kiss_rate')
    ok = len(rate5) >= 1
    for s, v in rate5:
        # every way of answering `true` excludes poll == NEVER (as the returned conjunct or as a dominating fact) and requires poll > own_interval
        not_never = re.match(r'^\(%s\.poll != NEVER=' % v5, v) is not None or b.must_pass(s.bb, fact_cmp('Ne', '^%s\\.poll$' % v5, r'^NEVER='))
        above = re.match(r'^\(%s\.poll > own_interval\)$' % v5, v) is not None or b.must_pass(s.bb, fact_cmp('Gt', '^%s\\.poll$' % v5, r'^own_interval$'))
        ok = ok and not_never and above
    ctx.check('is_kiss_rate|V5|excludes-deny', ok, 'an NTPv5 kiss with poll == NEVER (DENY) also satisfies is_kiss_rate (%s): handle_incoming tests RATE first, so the DENY is never registered'
              % [v for _, v in rate5], (rate5[0][0].where() if rate5 else None), sample=[v for _, v in rate5])
    ctx.check('is_kiss_rstr|V5|none', not table.get(('is_kiss_rstr', 'V5')), 'NTPv5 RSTR is %s' % [v for _, v in table.get(('is_kiss_rstr', 'V5'), [])], sample=len(table.get(('is_kiss_rstr', 'V5'), [])))
    hi = P.body(SRC + '::handle_incoming')
    order = []
    for nm in ('is_kiss_ntsn', 'is_kiss_rate', 'is_kiss_rstr', 'is_kiss_deny'):
        cs = hi.calls(r'NtpPacket::%s$' % nm)
        order.append((nm, len(cs)))
    ctx.check('handle_incoming|kiss-tests-present', all(n >= 1 for _, n in order), 'kiss tests in handle_incoming: %s' % order, sample=order)


def r5(ctx):
    ctx.rule('C09-R5', 'kiss classes are disjoint where the dispatch order matters: NTPv3/4 predicates each test their own kiss code; NTPv5 DENY is poll == NEVER and NTPv5 RATE '
             'requires poll > own interval and poll != NEVER; there is no NTPv5 RSTR')
    kiss_classes(ctx)


RULES = [r1, r2, r3, r4, r5]
FLOORS = {'C09-R1': 3, 'C09-R2': 12, 'C09-R3': 4, 'C09-R4': 5, 'C09-R5': 8}
