"""C40 — GPSd samples are validated before use."""
import re
from engine.rulelib import *
from engine.run import site_desc
from engine import panic

EXPLANATION = (
    "GUARD/TABLE/FLOW/PANIC rules: deserialize_sample has exactly one Ok return and every path to it passes the receive "
    "result being Ok, size == SOCK_SAMPLE_SIZE, magic == SOCK_MAGIC, pulse == 0 and is_finite(offset), where magic, pulse and offset "
    "are the same byte ranges that are returned in the sample; the byte ranges agree with gpsd's struct sock_sample layout "
    "(offset f64 @16, pulse i32 @24, leap i32 @28, magic i32 @36, 40 bytes, magic 0x534f434b); in SockSourceTask::run the socket is "
    "read into an array strictly longer than SOCK_SAMPLE_SIZE (so a truncated longer datagram is reported with a different size) "
    "whose first SOCK_SAMPLE_SIZE bytes are what deserialize_sample sees; the only handle_measurement call of the module is "
    "dominated by deserialize_sample(..) is Ok and builds the measurement from that sample's offset; no panic-capable construct is "
    "reachable from deserialize_sample / run."
)
NOT_DECIDED = [
    "that tokio's select! hands the recv result of this very poll to SelectResult::SockRecv is taken from the macro, not re-derived",
    "NtpDuration::from_seconds / NtpTimestamp subtraction for huge finite offsets saturate or wrap by design (C32), not decided here",
    "panics inside the clock filter for extreme measurements are a declared leaf (KALMAN_STOP)",
]
M = 'ntpd::daemon::sock_source::'
FIELD = r'\(Result::branch\(Result::map_err\(T::try_into\(array::index\(buf, Range\{start: %d, end: %d\}\)\), fn:SampleError::SliceError\)\) as Continue\)\.0'
LAYOUT = {'offset': (16, 24, r'f64::from_le_bytes'), 'pulse': (24, 28, r'num::from_le_bytes'), 'leap': (28, 32, r'num::from_le_bytes'),
          'magic': (36, 40, r'num::from_le_bytes')}


def fexpr(name):
    a, b, f = LAYOUT[name]
    return r'%s\(%s\)' % (f, FIELD % (a, b))


def r1(ctx):
    ctx.rule('C40-R1', 'deserialize_sample: one Ok return; every path to it passes recv Ok, size == SOCK_SAMPLE_SIZE (= 40), magic == SOCK_MAGIC (= 0x534f434b), '
             'pulse == 0, is_finite(offset) on the very byte ranges returned; ranges agree with struct sock_sample')
    P = ctx.P
    b = P.body(M + 'deserialize_sample')
    ctx.check('const|SOCK_SAMPLE_SIZE', int(P.const_val(M + 'SOCK_SAMPLE_SIZE')) == 40, 'SOCK_SAMPLE_SIZE = %s' % P.const_val(M + 'SOCK_SAMPLE_SIZE'), sample=P.const_val(M + 'SOCK_SAMPLE_SIZE'))
    ctx.check('const|SOCK_MAGIC', int(P.const_val(M + 'SOCK_MAGIC')) == 0x534f434b, 'SOCK_MAGIC = %s' % P.const_val(M + 'SOCK_MAGIC'), sample=P.const_val(M + 'SOCK_MAGIC'))
    oks = [(s, v) for s, v in ret_assigns(b) if v.startswith('Result::Ok')]
    ctx.check('deserialize_sample|ok-sites', len(oks) == 1, 'Ok sites: %d' % len(oks), sample=len(oks))
    for s, v in oks:
        for name in LAYOUT:
            ok = re.search(r'[{ ]%s: %s[,}]' % (name, fexpr(name)), v) is not None
            ctx.check('deserialize_sample|Ok|layout|%s' % name, ok, 'field %s is not bytes %d..%d of the datagram: %s' % (name, LAYOUT[name][0], LAYOUT[name][1], v[:200]), s.where(), sample=ok)
        ctx.guard(b, s, 'recv-ok', fact_is(r'^Result::branch\(Result::map_err\(result, fn:SampleError::IOError\)\)$', 'Continue'), key='deserialize_sample|Ok|recv-ok')
        ctx.guard(b, s, 'size', fact_cmp('Eq', r'^\(Result::branch\(Result::map_err\(result, fn:SampleError::IOError\)\) as Continue\)\.0$', r'^SOCK_SAMPLE_SIZE=40$'), key='deserialize_sample|Ok|size==SOCK_SAMPLE_SIZE')
        ctx.guard(b, s, 'magic', fact_cmp('Eq', '^%s$' % fexpr('magic'), r'^SOCK_MAGIC=1397703499$'), key='deserialize_sample|Ok|magic==SOCK_MAGIC')
        ctx.guard(b, s, 'pulse', fact_cmp('Eq', '^%s$' % fexpr('pulse'), r'^0$'), key='deserialize_sample|Ok|pulse==0')
        ctx.guard(b, s, 'finite', fact_call(r'f64::is_finite$', True, ['^%s$' % fexpr('offset')]), key='deserialize_sample|Ok|offset-finite')
    mk = [x for x in P.bodies.values() if x.raw['promoted'] is None and x.id != b.id and x.aggregates(r'sock_source::SockSample$')]
    ctx.check('SockSample|only-constructor', not mk, 'SockSample also built in %s' % [x.npath for x in mk], sample=len(mk))


def arr_len(ty):
    m = re.match(r'^\[u8; (\d+)\]$', ty)
    return int(m.group(1)) if m else None


def r2(ctx):
    ctx.rule('C40-R2', 'SockSourceTask::run: the array handed to UnixDatagram::recv is longer than SOCK_SAMPLE_SIZE and deserialize_sample sees its first '
             'SOCK_SAMPLE_SIZE bytes; handle_measurement (the only one in the module) is dominated by deserialize_sample(..) is Ok and uses that sample\'s offset')
    P = ctx.P
    r = P.body(M + 'SockSourceTask::run::{closure#0}')
    size = int(P.const_val(M + 'SOCK_SAMPLE_SIZE'))
    rc = one(r.calls(r'UnixDatagram::recv$'), 'recv call in run')
    rb = N(r.call_args(rc)[1])
    rty = [l['ty'] for l in r.locals if l.get('name') == rb]
    n = arr_len(rty[0]) if len(rty) == 1 else None
    ctx.check('run|recv-buffer|longer-than-sample', n is not None and n > size, 'receive buffer `%s` has type %s; a datagram longer than %d bytes is truncated to exactly '
              'the sample size and passes the size test' % (rb, rty, size), rc.where(), sample={'buffer': rb, 'len': n})
    others = [x.npath for x in P.bodies_matching('^' + re.escape(M)) if x.id != r.id and x.calls(r'UnixDatagram::recv(_from)?$|::try_recv')]
    ctx.check('run|recv|only-site', not others, 'other receive sites in the module: %s' % others, sample=len(others))
    dc = one(r.calls(r'sock_source::deserialize_sample$'), 'deserialize_sample call in run')
    db = N(r.call_args(dc)[1])
    if db == rb:
        ok = True
    else:
        cp = [c for c in r.calls(r'slice::copy_from_slice$') if N(r.call_args(c)[0]) == db and
              re.match(r'^array::index\(%s, Range(To)?\{(start: 0, )?end: SOCK_SAMPLE_SIZE=%d\}\)$' % (re.escape(rb), size), N(r.call_args(c)[1]))]
        ok = len(cp) == 1 and blocks_must_pass_block(r, dc.bb, [cp[0].bb]) and blocks_must_pass_block(r, cp[0].bb, [rc.bb])
    ctx.check('run|sample-bytes|from-recv-buffer', ok, 'the bytes given to deserialize_sample (`%s`) are not the first SOCK_SAMPLE_SIZE bytes of the receive buffer `%s`' % (db, rb), dc.where(), sample=ok)
    hm = []
    for x in P.bodies_matching('^' + re.escape(M)):
        hm += [(x, c) for c in x.calls(r'::handle_measurement$')]
    ctx.check('module|handle_measurement|one-site', len(hm) == 1 and hm[0][0].id == r.id, 'handle_measurement sites: %s' % [x.npath for x, _ in hm], sample=len(hm))
    for x, c in hm:
        ctx.guard(x, c, 'sample-ok', fact_is(r'^sock_source::deserialize_sample\(', ['Ok']), key='run|handle_measurement|deserialize-ok')
        m = S(x.call_args(c)[1])
        ok = re.search(r'sender_ts: NtpTimestamp::sub\(\(NtpClock::now\(self\.clock\) as Ok\)\.0, NtpDuration::from_seconds\(\(sock_source::deserialize_sample\(.*\) as Ok\)\.0\.offset\)\), receiver_ts: \(NtpClock::now\(self\.clock\) as Ok\)\.0,', m) is not None
        ctx.check('run|measurement|from-validated-sample', ok, 'measurement timestamps are not (now - validated sample offset, now): %s' % m[:300], c.where(), sample=ok)


def r3(ctx):
    panic.property_rule(ctx, 'C40', 'C40-R3')


RULES = [r1, r2, r3]
FLOORS = {'C40-R1': 12, 'C40-R2': 6}
