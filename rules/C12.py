"""C12 — NTP version negotiation follows the upgrade protocol."""
import re

from engine.rulelib import *
from engine.run import site_desc

EXPLANATION = (
    "TABLE/PRED/GUARD/WHO rules: every assignment to NtpSource.protocol_version is extracted with its guard set and "
    "compared with the transition table of the upgrade protocol; request builder per (NTS?, state); accepted incoming "
    "version per state; is_upgrade tests the V4 reference timestamp against the upgrade marker that the upgrade request "
    "builder emits; key exchange maps NTPv4->V4, DraftNTPv5->V5."
)
NOT_DECIDED = ["that the server echoes the marker (server side is C18)"]

SRC = 'ntp_proto::source::NtpSource'
PKT = 'ntp_proto::packet::NtpPacket'
PV = 'ntp_proto::source::ProtocolVersion'
VALID = fact_call(r'NtpPacket::valid_server_response$', True)
ST = lambda vs: fact_is(r'^self\.protocol_version$', vs)
UPG_T = fact_call(r'NtpPacket::is_upgrade$', True)
UPG_F = fact_call(r'NtpPacket::is_upgrade$', False)
TRIES_EXPR = r'^\w+::saturating_sub\(\(self\.protocol_version as V4UpgradingToV5\)\.tries_left, 1\)$'


def r1(ctx):
    ctx.rule('C12-R1', 'transition table of protocol_version: Upgrading -valid&upgrade-> UpgradedToV5; Upgrading -valid&!upgrade&'
             'tries-1==0-> V4; Upgrading -valid&!upgrade-> Upgrading{tries-1}; UpgradedToV5 -valid-> V5; UpgradedToV5 -timer&'
             'unanswered>=2-> V4; no other writer; DEFAULT_UPGRADE_TRIES == 8; AFTER_UPGRADE_TRIES_THRESHOLD == 2')
    P = ctx.P
    b = P.body(SRC + '::handle_incoming')
    ws = [s for s, f in self_writes(b) if f == 'protocol_version']
    table = {}
    for s in ws:
        v = written_value(b, s)
        table.setdefault(v.split('{')[0], []).append((s, v))
    ctx.check('handle_incoming|transition-targets', sorted(table) == ['ProtocolVersion::UpgradedToV5', 'ProtocolVersion::V4',
                                                                     'ProtocolVersion::V4UpgradingToV5', 'ProtocolVersion::V5'] and len(ws) == 4,
              'protocol_version transitions in handle_incoming: %s' % sorted((k, len(v)) for k, v in table.items()), sample=sorted(table))
    tries_zero = fact_cmp('Eq', TRIES_EXPR, r'^0$')
    tries_nz = fact_cmp('Ne', TRIES_EXPR, r'^0$')
    exp = {
        'ProtocolVersion::UpgradedToV5': [('valid', VALID), ('from-upgrading', ST(['V4UpgradingToV5'])), ('upgrade-marker', UPG_T)],
        'ProtocolVersion::V4': [('valid', VALID), ('from-upgrading', ST(['V4UpgradingToV5'])), ('no-marker', UPG_F), ('tries-exhausted', tries_zero)],
        'ProtocolVersion::V4UpgradingToV5': [('valid', VALID), ('from-upgrading', ST(['V4UpgradingToV5'])), ('no-marker', UPG_F), ('tries-left', tries_nz)],
        'ProtocolVersion::V5': [('valid', VALID), ('from-upgraded', ST(['UpgradedToV5']))],
    }
    for tgt, reqs in exp.items():
        for s, v in table.get(tgt, []):
            for name, pred in reqs:
                ctx.guard(b, s, name, pred, key='handle_incoming|->%s|%s' % (tgt.split('::')[-1], name))
            if tgt.endswith('V4UpgradingToV5'):
                ctx.check('handle_incoming|->V4UpgradingToV5|value', re.match(
                    r'^ProtocolVersion::V4UpgradingToV5\{tries_left: \w+::saturating_sub\(\(self\.protocol_version as V4UpgradingToV5\)\.tries_left, 1\)\}$', v) is not None,
                    'remaining tries are not decremented by one: %s' % v, s.where(), sample=v)
    t = P.body(SRC + '::handle_timer')
    tw = [s for s, f in self_writes(t) if f == 'protocol_version']
    ctx.check('handle_timer|transition-count', len(tw) == 1, 'expected one protocol_version write in handle_timer', sample=len(tw))
    for s in tw:
        v = written_value(t, s)
        ctx.check('handle_timer|->V4|value', v == 'ProtocolVersion::V4{}', 'timer fallback writes %s' % v, s.where(), sample=v)
        ctx.guard(t, s, 'from-upgraded', ST(['UpgradedToV5']), key='handle_timer|->V4|from-upgraded')
        ctx.guard(t, s, 'missed>=2', fact_cmp('Ge', r'^Reach::unanswered_polls\(self\.reach\)$', r'^AFTER_UPGRADE_TRIES_THRESHOLD=2$'),
                  key='handle_timer|->V4|missed>=2')
        # the fallback happens before this timer's poll is counted and before the packet is built
        polls = [c.bb for c in t.calls(r'Reach::poll$')]
        ctx.check('handle_timer|fallback-before-poll', all(not t.can_reach(p, s.bb) for p in polls),
                  'fallback decision happens after reach.poll()', s.where())
    allw = sorted({bd.npath for bd, s in P.field_writers('protocol_version', r'NtpSource$')})
    ctx.check('who-writes-protocol_version', allw == [SRC + '::handle_incoming', SRC + '::handle_timer'],
              'writers of protocol_version: %s' % allw, sample=allw)
    d = P.body(PV + '::v4_upgrading_to_v5_with_default_tries')
    vals = [v for _, v in ret_assigns(d)]
    ctx.check('default-tries', vals == ['ProtocolVersion::V4UpgradingToV5{tries_left: DEFAULT_UPGRADE_TRIES=8}'],
              'default upgrade tries: %s' % vals, sample=vals)


def r2(ctx):
    ctx.rule('C12-R2', 'handle_timer request builder per state: plain V4->poll_message, Upgrading->poll_message_upgrade_request, '
             'UpgradedToV5|V5->poll_message_v5; NTS V4->nts_poll_message, others->nts_poll_message_v5')
    b = ctx.P.body(SRC + '::handle_timer')
    table = {
        r'NtpPacket::poll_message$': (False, ['V4']),
        r'NtpPacket::poll_message_upgrade_request$': (False, ['V4UpgradingToV5']),
        r'NtpPacket::poll_message_v5$': (False, ['UpgradedToV5', 'V5']),
        r'NtpPacket::nts_poll_message$': (True, ['V4']),
        r'NtpPacket::nts_poll_message_v5$': (True, ['V4UpgradingToV5', 'V5', 'UpgradedToV5']),
    }
    for rx, (nts, states) in table.items():
        s = one(b.calls(rx), 'builder %s' % rx)
        nm = rx.split('::')[1].rstrip('$')
        ctx.guard(b, s, 'nts=%s' % nts, fact_is(r'^self\.nts$', 'Some' if nts else 'None'), key='handle_timer|%s|nts' % nm)
        ctx.guard(b, s, 'state', ST(states), key='handle_timer|%s|state' % nm)
    # V4-only states never reach a v5 builder and vice versa: the plain V4 state set is exactly {V4}
    P = ctx.P
    for nm, ver in (('poll_message', 'V4'), ('poll_message_upgrade_request', 'V4'), ('poll_message_v5', 'V5'),
                    ('nts_poll_message', 'V4'), ('nts_poll_message_v5', 'V5')):
        pb = P.body(PKT + '::' + nm)
        hv = [s.data['rv']['variant'] for s in pb.aggregates(r'packet::NtpHeader$')]
        ctx.check('%s|header-version' % nm, hv == [ver], '%s builds header variants %s' % (nm, hv), sample=hv)


def r3(ctx):
    ctx.rule('C12-R3', 'is_expected_incoming_version: V4 accepts V4|V3; V4UpgradingToV5 accepts V4; UpgradedToV5|V5 accept V5; '
             'its false edge in handle_incoming leads to an effect-free return')
    P = ctx.P
    b = P.body(PV + '::is_expected_incoming_version')
    got = set()
    for s, v in ret_assigns(b):
        if v == '0':
            continue
        states = None
        for stv in (['V4'], ['V4UpgradingToV5'], ['UpgradedToV5', 'V5']):
            if b.must_pass(s.bb, fact_is(r'^self$', stv)):
                states = tuple(stv)
        m = re.match(r'^\(incoming_version == NtpVersion::(V\d)\{\}\)$', v)
        if v == '1':
            # constant true: find the guarding comparison
            acc = [x for x in ('V3', 'V4', 'V5') if b.must_pass(s.bb, fact_cmp('Eq', r'^incoming_version$', r'^NtpVersion::%s\{\}$' % x))]
            got.add((states, tuple(acc)))
        elif m:
            got.add((states, (m.group(1),)))
        else:
            got.add((states, ('?' + v,)))
    exp = {(('V4',), ('V4',)), (('V4',), ('V3',)), (('V4UpgradingToV5',), ('V4',)), (('UpgradedToV5', 'V5'), ('V5',))}
    ctx.check('is_expected_incoming_version|table', got == exp, 'accepted-version table is %s' % sorted(map(str, got)), sample=sorted(map(str, got)))
    from rules.C07 import effect_sites
    h = P.body(SRC + '::handle_incoming')
    n, region = region_after(h, fact_call(r'ProtocolVersion::is_expected_incoming_version$', False))
    effs = [w for s, w in effect_sites(P, h) if s.bb in region]
    ctx.check('handle_incoming|unexpected-version-region', n == 1 and not effs,
              'unexpected-version packets can have effects: %s' % effs, sample={'edges': n, 'effects': effs})


def r4(ctx):
    ctx.rule('C12-R4', 'KeyExchangeClient::exchange_keys sets protocol_version V4 for NTPv4 and V5 for DraftNTPv5 (from response.protocol)')
    P = ctx.P
    bodies = P.bodies_matching(r'^ntp_proto::nts::KeyExchangeClient::exchange_keys')
    found = []
    for kb in bodies:
        for s in kb.aggregates(r'source::ProtocolVersion$'):
            v = s.data['rv']['variant']
            for proto, want in (('NTPv4', 'V4'), ('DraftNTPv5', 'V5')):
                if kb.must_pass(s.bb, fact_is(r'response\.protocol$|\.protocol$', [proto])):
                    found.append((proto, v))
    ctx.check('exchange_keys|protocol-map', sorted(found) == [('DraftNTPv5', 'V5'), ('NTPv4', 'V4')],
              'protocol -> version map is %s' % sorted(found), sample=sorted(found))


def r5(ctx):
    ctx.rule('C12-R5', 'is_upgrade is true only for a V4 header whose reference_timestamp equals the upgrade marker '
             '("NTP5DRFT"), the value poll_message_upgrade_request puts into reference_timestamp')
    P = ctx.P
    b = P.body(PKT + '::is_upgrade')
    marker = str(int.from_bytes(b'NTP5DRFT', 'big'))
    for s, v in ret_assigns(b):
        if v == '0':
            continue
        ctx.guard(b, s, 'header-V4', fact_is(r'^self\.header$', ['V4']), key='is_upgrade|true|V4')
        ctx.guard(b, s, 'marker', lambda f: f.kind == 'eq' and f.values == [marker] and S(f.term).endswith('.reference_timestamp.timestamp'),
                  key='is_upgrade|true|marker')
    rq = P.body(PKT + '::poll_message_upgrade_request')
    ws = [s for s in rq.assigns(lambda pl: any(isinstance(p, dict) and p.get('f') == 'reference_timestamp' for p in pl['p']))]
    vals = [N(rq.rvalue_term(s.data['rv'])) for s in ws if s.kind == 'assign']
    ctx.check('poll_message_upgrade_request|marker', vals == ['UPGRADE_TIMESTAMP=ntp_proto::packet::v5::UPGRADE_TIMESTAMP'], 'upgrade request marker: %s' % vals, sample=vals)


RULES = [r1, r2, r3, r4, r5]
FLOORS = {'C12-R1': 20, 'C12-R2': 15, 'C12-R3': 2, 'C12-R4': 1, 'C12-R5': 3}
