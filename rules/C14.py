"""C14 — building a poll request never fails."""
import re
from engine.rulelib import *
from engine.run import site_desc
from engine import panic

EXPLANATION = (
    "PANIC reachability from NtpSource::handle_timer (request builders, serializer, cipher) with every construct discharged or "
    "audited - in particular the `.expect(..)` on serializing into the 1024-byte buffer is audited with the size argument - and "
    "FLOW/GUARD rules pinning the facts that argument uses: the buffer is [u8; 1024], the number of requested cookies is "
    "min(gap, ((buffer.len() - 300) / max(cookie.len(), 1)).min(255)), and new_cookies == 0 leads to Reset before any builder."
)
NOT_DECIDED = ["the byte arithmetic of the size argument for every cookie length 0..=1024 is argued in the audit entry, not machine-checked"]
SRC = 'ntp_proto::source::NtpSource'


def r1(ctx):
    panic.property_rule(ctx, 'C14', 'C14-R1')


def r2(ctx):
    ctx.rule('C14-R2', 'facts used by the audited size argument: send buffer is [u8; 1024]; new_cookies = min(cookies.gap(), ((buffer.len() - 300) / '
             'max(cookie.len(), 1)).min(u8::MAX)); new_cookies == 0 returns Reset and dominates both NTS builders; missing cookie returns Reset')
    P = ctx.P
    a = P.adt('ntp_proto::source::NtpSource')
    f = {x['name']: x['ty'] for x in a['variants'][0]['fields']}
    ctx.check('NtpSource|buffer-1024', f.get('buffer') == '[u8; 1024]', 'send buffer type is %s' % f.get('buffer'), sample=f.get('buffer'))
    b = P.body(SRC + '::handle_timer')
    builders = some(b.calls(r'NtpPacket::nts_poll_message(_v5)?$'), 'NTS builders')
    for s in builders:
        v = S(b.call_args(s)[1])
        ok = re.match(r'^Ord::min\(CookieStash::gap\(\(self\.nts as Some\)\.0\.cookies\), \(Ord::min\(\(\(slice::len\(self\.buffer\) - 300\) / '
                      r'Ord::max\(Vec::len\(\(CookieStash::get\(\(self\.nts as Some\)\.0\.cookies\) as Some\)\.0\), 1\)\), \(MAX=255 as usize\)\) as u8\)\)$', v) is not None
        ctx.check('handle_timer|%s|new_cookies-formula' % site_desc(b, s), ok, 'requested cookies: `%s`' % v, s.where(), sample=v)
        ctx.guard(b, s, 'new_cookies!=0', fact_cmp('Ne', r'^Ord::min\(CookieStash::gap\(', r'^0$'), key='handle_timer|%s|new_cookies!=0' % site_desc(b, s))
        ctx.guard(b, s, 'cookie-present', fact_is(r'^CookieStash::get\(', 'Some'), key='handle_timer|%s|cookie-present' % site_desc(b, s))
    ser = one(b.calls(r'NtpPacket::serialize$'), 'serialize call')
    a = [S(x) for x in b.call_args(ser)]
    ctx.check('handle_timer|serialize-into-buffer', a[1] == 'Cursor::new(self.buffer)' and a[3] == 'Option::None{}', 'serialize target/padding: %s' % [a[1], a[3]], ser.where(), sample=[a[1], a[3]])
    ctx.check('MAX_COOKIES', P.const_val('ntp_proto::cookiestash::MAX_COOKIES') == '8', 'MAX_COOKIES changed (the audited bound assumes at most 8 cookie-sized fields)',
              sample=P.const_val('ntp_proto::cookiestash::MAX_COOKIES'))
    g = [v for _, v in ret_assigns(P.body('ntp_proto::cookiestash::CookieStash::gap'))]
    ctx.check('gap|bounded-by-capacity', g == ['((slice::len(self.cookies) - self.valid) as u8)'], 'gap() is %s' % g, sample=g)


def r3(ctx):
    ctx.rule('C14-R3', 'the size argument counts new_cookies cookie-sized fields: both NTS request builders emit exactly one NtsCookie(cookie) outside the loop and one '
             'NtsCookiePlaceholder{cookie.len()} per element of 1..new_cookies')
    from rules.C13 import builder_cookie_fields
    builder_cookie_fields(ctx)


RULES = [r1, r2, r3]
FLOORS = {'C14-R1': 50, 'C14-R2': 9, 'C14-R3': 10}
