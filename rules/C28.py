"""C28 — NTS key exchange negotiates only mutually supported parameters."""
import re
from engine.rulelib import *
from engine.run import site_desc

EXPLANATION = (
    "FLOW/COUNT/GUARD rules: the key-exchange server picks protocols.iter().find(|v| self.protocols.contains(v)) and "
    "algorithms.iter().find(|v| !Unknown) (first in client order), issues DEFAULT_NUMBER_OF_COOKIES (8) cookies each "
    "encode_cookie(DecodedServerCookie{algorithm, s2c: keys.s2c, c2s: keys.c2s}) with keys exported for (protocol, "
    "algorithm); the exporter contexts are [proto_hi, proto_lo, alg_hi, alg_lo, 0] for c2s and [.., 1] for s2c in the one "
    "function both sides use; the client returns a KeyExchangeResult only past membership tests of the response's protocol "
    "and algorithm in what it offered."
)
NOT_DECIDED = ["equality of the TLS exporter output on both sides (rustls)"]
HC = 'ntp_proto::nts::KeyExchangeServer::handle_connection::{closure#0}'
EK = 'ntp_proto::nts::KeyExchangeClient::exchange_keys::{closure#0}'


REQ = r'\(\(parse::\{closure#0\}\(.*Request::parse\(.*\) as Ready\)\.0 as Ok\)\.0'


def selected(b):
    """Expanded terms of the (protocol, algorithm) pair the server exports keys for, in the KeyExchange arm."""
    ke = fact_is('^' + REQ + '$', ['KeyExchange'])
    ex = one([s for s in b.calls(r'NtsKeys::extract_from_connection$') if b.must_pass(s.bb, ke)], 'key export in the KeyExchange arm')
    a = [S(x) for x in b.call_args(ex)]
    return ke, ex, a


def r1(ctx):
    ctx.rule('C28-R1', 'server selection: protocol = client protocols.iter().find(|v| self.protocols.contains(v)).copied(); algorithm = client '
             'algorithms.iter().find(|v| !matches!(v, AeadAlgorithm::Unknown(_))).copied(); both iterate the lists of the parsed KeyExchange request')
    P = ctx.P
    b = P.body(HC)
    ke, ex, a = selected(b)
    for nm, listf, v in (('protocol', 'protocols', a[1]), ('algorithm', 'algorithms', a[2])):
        m = re.match(r'^\(Option::copied\(Iter::find\(slice::iter\(Cow::deref\(\(%s as KeyExchange\)\.%s\)\), closure:([^()]*)\)\) as Some\)\.0$' % (REQ, listf), v, re.S)
        ctx.check('handle_connection|%s|first-match-in-client-order' % nm, m is not None, '%s is selected as `%s`' % (nm, v[:80] + ' ... ' + v[-120:]), sample=v[-200:])
        if m:
            cl = [c for c in user_closures(P, b) if c.id.split('::', 1)[1] == m.group(1)]
            c = one(cl, 'selection closure for ' + nm)
            cv = [x for _, x in ret_assigns(c)]
            if nm == 'protocol':
                ctx.check('handle_connection|protocol|accepted-by-server', (len(cv) == 1 and re.match(r'^slice::contains\(self\.protocols, \w+\)$', cv[0]) is not None), 'protocol predicate is %s' % cv, sample=cv)
            else:
                ones = [s for s in c.assigns(lambda pl: pl['l'] != 0 and not pl['p']) if s.kind == 'assign' and written_value(c, s) == '1']
                ok = cv == ['!({0 | 1})'] and len(ones) == 1 and c.must_pass(ones[0].bb, fact_is(r'.', ['Unknown']))
                ctx.check('handle_connection|algorithm|first-known', ok, 'algorithm predicate is %s' % cv, sample=cv)


def r2(ctx):
    ctx.rule('C28-R2', 'server issues DEFAULT_NUMBER_OF_COOKIES == 8 cookies, each keyset.encode_cookie(&DecodedServerCookie{algorithm, s2c: keys.s2c, '
             'c2s: keys.c2s}) with keys = NtsKeys::extract_from_connection(conn, protocol, algorithm) for the selected pair; exporter contexts end in '
             '0 for c2s and 1 for s2c; the response names the selected protocol and algorithm')
    P = ctx.P
    ctx.check('DEFAULT_NUMBER_OF_COOKIES', P.const_val('ntp_proto::nts::DEFAULT_NUMBER_OF_COOKIES') == '8', 'cookie count constant', sample=P.const_val('ntp_proto::nts::DEFAULT_NUMBER_OF_COOKIES'))
    b = P.body(HC)
    ke, ex, xa = selected(b)
    proto, alg = xa[1], xa[2]
    keys = '(Result::branch(%s) as Continue).0' % S(b.call_term(ex.data)) if hasattr(b, 'call_term') else None
    enc = [s for s in b.calls(r'KeySet::encode_cookie$') if b.must_pass(s.bb, ke)]
    ctx.check('handle_connection|ke-encode-site', len(enc) == 1, 'encode_cookie sites in the KeyExchange arm: %d' % len(enc), sample=len(enc))
    for s in enc:
        ctx.guard(b, s, 'in-cookie-loop', fact_is(r'^range::next\(I::into_iter\(Range\{start: 0, end: DEFAULT_NUMBER_OF_COOKIES=8\}\)\)$', 'Some'), key='handle_connection|ke-encode|in-loop')
        a = [S(x) for x in b.call_args(s)]
        m = re.match(r'^DecodedServerCookie\{algorithm: (?P<a>.*), s2c: (?P<k>.*)\.s2c, c2s: (?P<k2>.*)\.c2s\}$', a[1], re.S)
        ok = a[0] == 'keyset' and m is not None and m.group('a') == alg and m.group('k') == m.group('k2') and \
            re.match(r'^\((Result::branch\()?NtsKeys::extract_from_connection\(', m.group('k')) is not None and re.search(r' as (Continue|Ok)\)\.0$', m.group('k')) is not None
        ctx.check('handle_connection|ke-cookie-contents', ok, 'cookie is encoded from `%s ... %s`' % (a[1][:80], a[1][-80:]), s.where(), sample=a[1][:60])
    rng = [S(b.rvalue_term(s.data['rv'])) for s in b.aggregates(r'::Range$') if b.must_pass(s.bb, ke)]
    ctx.check('handle_connection|ke-cookie-count', rng == ['Range{start: 0, end: DEFAULT_NUMBER_OF_COOKIES=8}'], 'cookie loop range %s' % rng, sample=rng)
    ctx.check('handle_connection|key-export-args', proto.endswith('as Some).0') and alg.endswith('as Some).0') and proto != alg, 'keys exported for %s / %s' % (proto[-60:], alg[-60:]), ex.where(), sample=[proto[-40:], alg[-40:]])
    resp = [s for s in b.aggregates(r'messages::KeyExchangeResponse$') if b.must_pass(s.bb, ke)]
    ctx.check('handle_connection|ke-response-site', len(resp) == 1, 'KeyExchangeResponse literals in the KeyExchange arm: %d' % len(resp), sample=len(resp))
    for s in resp:
        rv = s.data['rv']
        f = {k: S(b.operand_term(o)) for k, o in zip(rv['fields'], rv['ops'])}
        ctx.check('handle_connection|ke-response', f['protocol'] == proto and f['algorithm'] == alg and re.match(r'^T::into\(Vec::(with_capacity|new)\(', f['cookies']) is not None,
                  'response announces %s' % {k: f[k][-60:] for k in ('protocol', 'algorithm', 'cookies')}, s.where(), sample={k: f[k][-40:] for k in ('protocol', 'algorithm', 'cookies')})
    e = P.body('ntp_proto::nts::NtsKeys::extract_from_connection')
    lits = e.aggregates(r'nts::NtsKeys$')
    ctx.check('extract_from_connection|literals', len(lits) == 2, 'NtsKeys literals: %d' % len(lits), sample=len(lits))
    ctxt = r'\[\(\(T::into\(protocol\) >> 8\) as u8\), \(T::into\(protocol\) as u8\), \(\(T::into\(algorithm\) >> 8\) as u8\), \(T::into\(algorithm\) as u8\), %d\]'
    for s in lits:
        rv = s.data['rv']
        f = {k: S(e.operand_term(o)) for k, o in zip(rv['fields'], rv['ops'])}
        ok = re.search(ctxt % 0, f['c2s']) is not None and re.search(ctxt % 1, f['s2c']) is not None and not re.search(ctxt % 1, f['c2s']) and not re.search(ctxt % 0, f['s2c'])
        ctx.check('extract_from_connection|%s|contexts' % site_desc(e, s), ok, 'exporter contexts c2s/s2c: %s / %s' % (f['c2s'][-60:], f['s2c'][-60:]), s.where(), sample=[f['c2s'][-40:], f['s2c'][-40:]])
        cw = re.search(r'AesSivCmac(\d+)::new', f['c2s']).group(1), re.search(r'AesSivCmac(\d+)::new', f['s2c']).group(1)
        alg = 'AeadAesSivCmac' + cw[0]
        ctx.check('extract_from_connection|%s|cipher-per-algorithm' % site_desc(e, s), cw[0] == cw[1] and e.must_pass(s.bb, fact_is(r'^algorithm$', [alg])),
                  'cipher widths %s under algorithm arm' % (cw,), s.where(), sample=cw)
    who = sorted({c[0].npath for c in P.callers_of('ntp_proto::nts::NtsKeys::extract_from_connection')})
    ctx.check('who-calls-extract', set(who) == {HC, EK}, 'callers of extract_from_connection: %s' % who, sample=who)


def r3(ctx):
    ctx.rule('C28-R3', 'client exchange_keys returns Ok(KeyExchangeResult) only past membership of response.protocol in self.protocols and of '
             'response.algorithm in self.algorithms; the keys are exported for exactly (response.protocol, response.algorithm)')
    P = ctx.P
    b = P.body(EK)
    oks = [s for s in b.aggregates(r'core::result::Result$', 'Ok') if 'KeyExchangeResult' in S(b.rvalue_term(s.data['rv']))[:60]]
    ctx.check('exchange_keys|ok-sites', len(oks) == 1, 'Ok(KeyExchangeResult) sites: %d' % len(oks), sample=len(oks))
    offered_p = fact_call(r'slice::contains$', True, [r'self\.protocols', r'\.protocol$'])
    offered_a = fact_call(r'slice::contains$', True, [r'self\.algorithms', r'\.algorithm$'])
    for s in oks:
        ctx.guard(b, s, 'protocol-was-offered', offered_p, key='exchange_keys|Ok|protocol-was-offered',
                  msg='the client adopts the protocol named in the response without checking that it offered it')
        ctx.guard(b, s, 'algorithm-was-offered', offered_a, key='exchange_keys|Ok|algorithm-was-offered',
                  msg='the client adopts the AEAD algorithm named in the response without checking that it offered it')
    ex = one(b.calls(r'NtsKeys::extract_from_connection$'), 'key export in exchange_keys')
    a = [S(x) for x in b.call_args(ex)]
    ctx.check('exchange_keys|key-export-args', a[1].endswith('.protocol') and a[2].endswith('.algorithm') and a[1][:-len('.protocol')] == a[2][:-len('.algorithm')] and 'KeyExchangeResponse::parse' in a[1],
              'keys exported for %s' % a[1:], ex.where(), sample=a[1:])
    req = [s for s in b.aggregates(r'messages::Request$', 'KeyExchange')]
    for s in req:
        rv = s.data['rv']
        f = {k: S(b.operand_term(o)) for k, o in zip(rv['fields'], rv['ops'])}
        ctx.check('exchange_keys|offer', f['algorithms'] == 'T::into(self.algorithms)' and f['protocols'] == 'T::into(self.protocols)', 'request offers %s' % f, s.where(),
                  sample={k: f[k] for k in ('algorithms', 'protocols')})


RULES = [r1, r2, r3]
FLOORS = {'C28-R1': 4, 'C28-R2': 12, 'C28-R3': 5}
