"""C08 — a source only accepts fresh answers to its own pending request."""
import re

from engine.rulelib import *
from engine.run import site_desc

EXPLANATION = (
    "GUARD/COUNT/PRED/FLOW rules over the MIR of NtpSource::handle_incoming, process_message, "
    "handle_timer and NtpPacket::valid_server_response: every path to the measurement-producing "
    "call must establish version, pending-identifier, poll-window, identifier match, non-KISS, "
    "stratum and mode conditions; the pending identifier is cleared before the measurement is "
    "handed on; exactly two handle_measurement calls per accepted packet."
    ' NtpPacket::is_kiss is `stratum == 0` for every header version, so kiss packets of any version are kept away from process_message.'
)
NOT_DECIDED = ["cryptographic strength of the identifier", "clock behaviour of tokio::time::Instant"]

SRC = 'ntp_proto::source::NtpSource'
PKT = 'ntp_proto::packet::NtpPacket'


def r1(ctx):
    ctx.rule('C08-R1', 'process_message is reachable in handle_incoming only past: expected version, '
             'pending identifier Some and validity >= now, valid_server_response, not RATE/RSTR/DENY/NTSN/KISS, '
             'stratum <= MAX_STRATUM(16), mode == Server; process_message has no other caller')
    P = ctx.P
    b = P.body(SRC + '::handle_incoming')
    site = one(b.calls(r'NtpSource::process_message$'), 'call to process_message in handle_incoming')
    reqs = [
        ('deserialize-ok', fact_is(r'NtpPacket::deserialize\(', 'Ok')),
        ('expected-version', fact_call(r'ProtocolVersion::is_expected_incoming_version$', True,
                                       [r'^self\.protocol_version$', r'NtpPacket::version\('])),
        ('pending-some', fact_is(r'^self\.current_request_identifier$', 'Some')),
        ('window', fact_cmp('Ge', r'self\.current_request_identifier as Some\)\.0\.1$', r'Instant::now\(\)')),
        ('valid-response', fact_call(r'NtpPacket::valid_server_response$', True,
                                     [None, r'self\.current_request_identifier as Some\)\.0\.0$',
                                      r'^Option::is_some\(self\.nts\)$'])),
        ('not-rate', fact_call(r'NtpPacket::is_kiss_rate$', False)),
        ('not-rstr', fact_call(r'NtpPacket::is_kiss_rstr$', False)),
        ('not-deny', fact_call(r'NtpPacket::is_kiss_deny$', False)),
        ('not-ntsn', fact_call(r'NtpPacket::is_kiss_ntsn$', False)),
        ('not-kiss', fact_call(r'NtpPacket::is_kiss$', False)),
        ('stratum', fact_cmp('Le', r'^NtpPacket::stratum\(', r'^MAX_STRATUM=16$')),
        ('mode-server', fact_cmp('Eq', r'^NtpPacket::mode\(', r'NtpAssociationMode::Server')),
    ]
    for name, pred in reqs:
        ctx.guard(b, site, name, pred)
    # the packet handed on is the one that was checked
    args = b.call_args(site)
    pk = S(args[1])
    ctx.check('handle_incoming|process_message-arg', re.search(r'NtpPacket::deserialize\(message', pk) is not None,
              'process_message is not given the deserialized packet that was checked', site.where(), sample=pk)
    ctx.check('MAX_STRATUM', P.const_val('ntp_proto::source::MAX_STRATUM') == '16', 'MAX_STRATUM != 16',
              sample=P.const_val('ntp_proto::source::MAX_STRATUM'))
    callers = P.callers_of(SRC + '::process_message')
    names = sorted({c[0].npath for c in callers})
    ctx.check('who-calls-process_message', names == [SRC + '::handle_incoming'],
              'process_message has callers other than handle_incoming: %s' % names, sample=names)


def r2(ctx):
    ctx.rule('C08-R2', 'in process_message every path clears current_request_identifier (= None) before '
             'controller.handle_measurement, which is called exactly twice on every path')
    P = ctx.P
    b = P.body(SRC + '::process_message')
    hm = some(b.calls(r'handle_measurement$'), 'handle_measurement call in process_message')
    clears = [s for s in b.field_writes('current_request_identifier', r'NtpSource')
              if s.kind == 'assign' and S(b.rvalue_term(s.data['rv'])).startswith('Option::None')]
    ctx.check('process_message|clear-exists', len(clears) >= 1,
              'process_message no longer clears current_request_identifier', sample=[c.where() for c in clears])
    clear_blocks = {c.bb for c in clears}
    for s in hm:
        # every path entry -> s.bb passes through a clearing block
        seen = b.reachable_avoiding(None, blocked_block=lambda x: x in clear_blocks)
        ok = s.bb not in seen or s.bb in clear_blocks
        ctx.check('process_message|%s|after-clear' % site_desc(b, s), ok,
                  'handle_measurement reachable without clearing the pending request identifier', s.where())
    hm_blocks = {s.bb for s in hm}
    outs = b.count_paths(lambda x: x in hm_blocks, cap=3)
    for r in b.returns():
        ctx.check('process_message|return|count', outs[r.bb] == {2},
                  'handle_measurement call count on a path to return is %s, expected exactly 2' % sorted(outs[r.bb]),
                  r.where(), sample=sorted(outs[r.bb]))
    # arguments: outgoing and incoming measurement from measurements_from_packet(message,...)
    for s in hm:
        a = S(b.call_args(s)[1])
        ctx.check('process_message|%s|arg' % site_desc(b, s),
                  re.search(r'measurements_from_packet\(message, self\.id, send_time, recv_time\)', a) is not None,
                  'measurement does not come from measurements_from_packet(message, id, send_time, recv_time)', s.where(), sample=a)
    # no write to current_request_identifier in handle_incoming itself
    hi = P.body(SRC + '::handle_incoming')
    ctx.check('handle_incoming|no-identifier-write', len(hi.field_writes('current_request_identifier', r'NtpSource')) == 0,
              'handle_incoming writes current_request_identifier')


def r3(ctx):
    ctx.rule('C08-R3', 'valid_server_response returns true only if origin_timestamp (V3/V4) or client_cookie (V5) '
             'equals the identifier; with identifier.uid Some, only past the uid_ok test')
    P = ctx.P
    b = P.body(PKT + '::valid_server_response')
    # find assignments to the return place _0 and classify
    rets = [s for s in b.assigns(lambda pl: pl['l'] == 0 and not pl['p'])]
    vals = []
    for s in rets:
        if s.kind == 'assign':
            vals.append((s, S(b.rvalue_term(s.data['rv']))))
        else:
            vals.append((s, S(b.call_term(s.data))))
    true_like = [(s, v) for s, v in vals if v != '0']
    ctx.check('valid_server_response|ret-forms', len(true_like) == 2,
              'expected exactly two non-false return forms (V3/V4 and V5 comparison), found %s' % [v for _, v in true_like],
              sample=[v for _, v in vals])
    v34 = [(s, v) for s, v in true_like if re.search(r'\.origin_timestamp ==', v) and re.search(r'== identifier\.expected_origin_timestamp', v)]
    v5 = [(s, v) for s, v in true_like if re.search(r'client_cookie', v) and re.search(r'NtpClientCookie::from_ntp_timestamp\(identifier\.expected_origin_timestamp\)', v)]
    ctx.check('valid_server_response|v3v4-compare', len(v34) == 1 and '==' in v34[0][1],
              'V3/V4 arm does not compare header.origin_timestamp == identifier.expected_origin_timestamp',
              sample=[v for _, v in true_like])
    ctx.check('valid_server_response|v5-compare', len(v5) == 1 and '==' in v5[0][1],
              'V5 arm does not compare header.client_cookie == from_ntp_timestamp(identifier.expected_origin_timestamp)',
              sample=[v for _, v in true_like])
    for s, v in v34:
        ctx.guard(b, s, 'header-is-V3|V4', fact_is(r'^self\.header$', ['V3', 'V4']))
    for s, v in v5:
        ctx.guard(b, s, 'header-is-V5', fact_is(r'^self\.header$', ['V5']))
    # uid gate: every non-false return is reached only via uid None or uid_ok true
    for s, v in true_like:
        ok = b.must_pass(s.bb, any_of(fact_is(r'^identifier\.uid$', 'None'),
                                      lambda f: f.kind == 'bool' and f.pol and 'uid_ok' in tstr(f.term)))
        ctx.check('valid_server_response|%s|uid-gate' % ('v5' if 'client_cookie' in v else 'v34'), ok,
                  'identifier match reachable with a uid present but without uid_ok', s.where(),
                  sample=b.guard_strings(s.bb))


def r4(ctx):
    ctx.rule('C08-R4', 'handle_timer stores (identifier, Instant::now() + POLL_WINDOW) on every path returning Send')
    P = ctx.P
    b = P.body(SRC + '::handle_timer')
    ws = [s for s in b.field_writes('current_request_identifier', r'NtpSource') if s.kind == 'assign']
    ctx.check('handle_timer|identifier-store', len(ws) == 1, 'expected one store of current_request_identifier', sample=len(ws))
    for w in ws:
        v = S(b.rvalue_term(w.data['rv']))
        ctx.check('handle_timer|identifier-value',
                  re.search(r'Instant::add\(Instant::now\(\), POLL_WINDOW\)|\(Instant::now\(\) \+ POLL_WINDOW', v) is not None
                  or re.search(r'add\(Instant::now\(\), .*POLL_WINDOW', v) is not None,
                  'stored validity is not Instant::now() + POLL_WINDOW', w.where(), sample=v)
    sends = b.aggregates(r'NtpSourceAction$', 'Send')
    ctx.check('handle_timer|send-sites', len(sends) >= 1, 'no Send action built', sample=len(sends))
    wb = {w.bb for w in ws}
    for s in sends:
        seen = b.reachable_avoiding(None, blocked_block=lambda x: x in wb)
        ctx.check('handle_timer|send-after-store', s.bb not in seen or s.bb in wb,
                  'a Send is built on a path that did not store the new request identifier', s.where())


def r5(ctx):
    ctx.rule('C08-R5', 'NtpPacket::is_kiss is `stratum == 0` for every header version (V3, V4, V5): the kiss arms of handle_incoming, which keep kiss packets '
             'away from process_message, all hang on it')
    from rules import C09
    C09.is_kiss_all_versions(ctx)


RULES = [r1, r2, r3, r4, r5]
FLOORS = {'C08-R1': 15, 'C08-R2': 6, 'C08-R3': 6, 'C08-R4': 4, 'C08-R5': 1}
