"""C05 — offset and delay follow the NTP on-wire formulas."""
import re

from engine.rulelib import *
from engine.run import site_desc

EXPLANATION = (
    "FLOW/ARITH rules: the InternalMeasurement literal of the two-way wrapper has offset = ((T2-T1)+(T3-T4))/2 and "
    "delay = (T4-T1)-(T3-T2) over the stored outgoing measurement (T1 = sender_ts, T2 = receiver_ts) and the incoming one "
    "(T3 = sender_ts, T4 = receiver_ts), modulo commutativity of +; measurements_from_packet assigns T1 = send_time, "
    "T2 = packet receive timestamp, T3 = packet transmit timestamp, T4 = recv_time; the one-way wrapper reports "
    "sender_ts - receiver_ts; timestamp subtraction is wrapping_sub reinterpreted as signed (era safe)."
)
NOT_DECIDED = ["rounding of the division by two, saturation corner cases", "whether GPSd's offset field means remote-local (external format)"]

ALG = 'ntp_proto::algorithm'
TW = '<ntp_proto::algorithm::TwoWaySourceControllerWrapper as ntp_proto::algorithm::SourceController>::handle_measurement'
OW = '<ntp_proto::algorithm::OneWaySourceControllerWrapper as ntp_proto::algorithm::SourceController>::handle_measurement'


def norm(s):
    s = s.replace('(Option::take(self.last_outgoing_measurement) as Some).0', 'OUT').replace('measurement.', 'IN.')
    return s


def r1(ctx):
    ctx.rule('C05-R1', 'two-way wrapper: offset = ((out.receiver_ts - out.sender_ts) + (in.sender_ts - in.receiver_ts)) / 2; delay = '
             '(in.receiver_ts - out.sender_ts) - (in.sender_ts - out.receiver_ts); out is the stored outgoing measurement, taken exactly once')
    P = ctx.P
    b = P.body(TW)
    lit = one(b.aggregates(r'algorithm::InternalMeasurement$'), 'InternalMeasurement literal (two-way)')
    rv = lit.data['rv']
    f = {n: norm(S(b.operand_term(o))) for n, o in zip(rv['fields'], rv['ops'])}
    a = 'NtpTimestamp::sub(OUT.receiver_ts, OUT.sender_ts)'
    c = 'NtpTimestamp::sub(IN.sender_ts, IN.receiver_ts)'
    ok_off = f['offset'] in ('NtpDuration::div(NtpDuration::add(%s, %s), 2)' % (a, c), 'NtpDuration::div(NtpDuration::add(%s, %s), 2)' % (c, a))
    ctx.check('two-way|offset', ok_off, 'offset is computed as `%s`' % f['offset'], lit.where(), sample=f['offset'])
    ok_del = f['delay'] == 'NtpDuration::sub(NtpTimestamp::sub(IN.receiver_ts, OUT.sender_ts), NtpTimestamp::sub(IN.sender_ts, OUT.receiver_ts))'
    ctx.check('two-way|delay', ok_del, 'delay is computed as `%s`' % f['delay'], lit.where(), sample=f['delay'])
    ctx.check('two-way|localtime', f['localtime'] == 'IN.receiver_ts', 'localtime is `%s`' % f['localtime'], lit.where(), sample=f['localtime'])
    # outgoing stored only when sender is SYSTEM; incoming used otherwise
    ws = [(s, written_value(b, s)) for s, fld in self_writes(b) if fld == 'last_outgoing_measurement' and s.kind == 'assign']
    ctx.check('two-way|store-outgoing', [v for _, v in ws] == ['Option::Some{0: measurement}'], 'stored outgoing: %s' % [v for _, v in ws], sample=[v for _, v in ws])
    sys_eq = fact_cmp('Eq', r'^measurement\.sender_id$', r'SYSTEM')
    sys_ne = fact_cmp('Ne', r'^measurement\.sender_id$', r'SYSTEM')
    for s, v in ws:
        ctx.guard(b, s, 'outgoing', sys_eq, key='two-way|store-outgoing|sender-is-system')
    ctx.guard(b, lit, 'incoming', sys_ne, key='two-way|literal|sender-not-system')
    ctx.guard(b, lit, 'has-outgoing', fact_is(r'^Option::take\(self\.last_outgoing_measurement\)$', 'Some'), key='two-way|literal|has-outgoing')
    takes = b.calls(r'Option::take$')
    ctx.check('two-way|take-once', len(takes) == 1, 'outgoing measurement taken %d times' % len(takes), sample=len(takes))


def r2(ctx):
    ctx.rule('C05-R2', 'measurements_from_packet: outgoing = (sender_ts: send_time, receiver_ts: message.receive_timestamp()), incoming = '
             '(sender_ts: message.transmit_timestamp(), receiver_ts: recv_time); outgoing has sender_id SYSTEM, incoming receiver_id SYSTEM')
    b = ctx.P.body('ntp_proto::source::measurements_from_packet')
    lits = b.aggregates(r'algorithm::Measurement$')
    ctx.check('measurements_from_packet|literals', len(lits) == 2, 'expected two Measurement literals', sample=len(lits))
    got = []
    for s in lits:
        rv = s.data['rv']
        f = {n: S(b.operand_term(o)) for n, o in zip(rv['fields'], rv['ops'])}
        got.append((f['sender_id'], f['receiver_id'], f['sender_ts'], f['receiver_ts']))
    exp = [('SYSTEM', 'id', 'send_time', 'NtpPacket::receive_timestamp(message)'), ('id', 'SYSTEM', 'NtpPacket::transmit_timestamp(message)', 'recv_time')]
    normed = sorted((re.sub(r'^.*SYSTEM.*$', 'SYSTEM', a), re.sub(r'^.*SYSTEM.*$', 'SYSTEM', b2), c, d) for a, b2, c, d in got)
    ctx.check('measurements_from_packet|roles', normed == sorted(exp), 'timestamp roles are %s' % normed, sample=normed)
    rets = [v for _, v in ret_assigns(b)]
    ctx.check('measurements_from_packet|order', len(rets) == 1 and rets[0].index('send_time') < rets[0].index('recv_time'), 'tuple order changed', sample=[r[:80] for r in rets])


def r3(ctx):
    ctx.rule('C05-R3', 'one-way wrapper: offset = measurement.sender_ts - measurement.receiver_ts (remote minus local), localtime = receiver_ts')
    b = ctx.P.body(OW)
    lit = one(b.aggregates(r'algorithm::InternalMeasurement$'), 'InternalMeasurement literal (one-way)')
    rv = lit.data['rv']
    f = {n: S(b.operand_term(o)) for n, o in zip(rv['fields'], rv['ops'])}
    ctx.check('one-way|offset', f['offset'] == 'NtpTimestamp::sub(measurement.sender_ts, measurement.receiver_ts)', 'offset is `%s`' % f['offset'], lit.where(), sample=f['offset'])
    ctx.check('one-way|localtime', f['localtime'] == 'measurement.receiver_ts', 'localtime is `%s`' % f['localtime'], lit.where(), sample=f['localtime'])


def r4(ctx):
    ctx.rule('C05-R4', 'NtpTimestamp - NtpTimestamp is wrapping_sub on the 64-bit representation reinterpreted as i64 (shortest signed difference)')
    b = ctx.P.body_full('<ntp_proto::time_types::NtpTimestamp as core::ops::arith::Sub>::sub')
    vals = [v for _, v in ret_assigns(b)]
    ok = len(vals) == 1 and re.match(r'^NtpDuration\{duration: \(num::wrapping_sub\(self\.timestamp, rhs\.timestamp\) as i64\)\}$', vals[0]) is not None
    ctx.check('NtpTimestamp::sub|wrapping', ok, 'timestamp subtraction is `%s`' % vals, sample=vals)
    raw = [s for blk in b.blocks for s in blk['stmts'] if s['k'] == 'assign' and s['rv']['k'] == 'binop' and s['rv']['op'] in ('Sub', 'SubWithOverflow', 'SubUnchecked')]
    ctx.check('NtpTimestamp::sub|no-raw-sub', not raw, 'raw integer subtraction in timestamp difference', sample=len(raw))


def r5(ctx):
    ctx.rule('C05-R5', 'pairing: NtpSource::process_message hands the controller the outgoing (T1,T2) measurement of measurements_from_packet(message, self.id, send_time, recv_time) '
             'first and the incoming (T3,T4) one of the same call second (the wrapper pairs an incoming measurement with the last stored outgoing one); no other hand-over in NtpSource')
    P = ctx.P
    b = P.body('ntp_proto::source::NtpSource::process_message')
    hm = b.calls(r'SourceController::handle_measurement$')
    ctx.check('process_message|handle_measurement|two-sites', len(hm) == 2, 'handle_measurement calls: %d' % len(hm), sample=len(hm))
    src = 'source::measurements_from_packet(message, self.id, send_time, recv_time)'
    out = [c for c in hm if S(b.call_args(c)[1]) == src + '.0']
    inc = [c for c in hm if S(b.call_args(c)[1]) == src + '.1']
    ctx.check('process_message|handle_measurement|same-exchange', len(out) == 1 and len(inc) == 1, 'measurements handed over: %s' % [S(b.call_args(c)[1])[-60:] for c in hm], sample=[N(b.call_args(c)[1]) for c in hm])
    params = [l.get('name') for l in b.locals[1:5]]
    ctx.check('process_message|params', params == ['self', 'message', 'send_time', 'recv_time'], 'parameters %s' % params, sample=params)
    if len(out) == 1 and len(inc) == 1:
        o, i = out[0], inc[0]
        before = (o.bb != i.bb and blocks_must_pass_block(b, i.bb, [o.bb]) and not b.can_reach(i.bb, o.bb)) or (o.bb == i.bb and (o.idx or 0) < (i.idx or 0))
        ctx.check('process_message|outgoing-before-incoming', before, 'the incoming measurement is handed over before the outgoing one of the same exchange: it would be paired with the previous exchange', i.where(), sample=before)
        recv = [S(b.call_args(c)[0]) for c in (o, i)]
        ctx.check('process_message|same-controller', recv == ['self.controller', 'self.controller'], 'receivers %s' % recv, sample=recv)
    others = [x.npath for x in P.bodies_matching(r'^ntp_proto::source::NtpSource::') if x.id != b.id and x.calls(r'handle_measurement$')]
    ctx.check('NtpSource|no-other-hand-over', not others, 'other handle_measurement sites in NtpSource: %s' % others, sample=len(others))


RULES = [r1, r2, r3, r4, r5]
FLOORS = {'C05-R1': 8, 'C05-R2': 3, 'C05-R3': 2, 'C05-R4': 2, 'C05-R5': 5}
