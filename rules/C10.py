"""C10 — poll intervals stay within configured and requested bounds."""
import re

from engine.rulelib import *
from engine.run import site_desc

EXPLANATION = (
    "FLOW/WHO/PRED rules: one poll_interval value (max(controller desired, remote minimum)) feeds the packet "
    "builders, last_poll_interval and the timer; timer = as_system_duration * gen_range(1.01..=1.05); the filter's "
    "desired interval is only ever initial/limits.min/inc/dec with inc = min(x+1, max), dec = max(x-1, min); "
    "remote_min_poll_interval is only written from limits.min, the RATE rule and a larger server-requested poll."
)
NOT_DECIDED = ["that the configured initial poll interval lies within the configured limits (configuration precondition)"]

SRC = 'ntp_proto::source::NtpSource'
KS = 'ntp_proto::algorithm::kalman::source'


def r1(ctx):
    ctx.rule('C10-R1', 'handle_timer: a single poll_interval = current_poll_interval() is passed to every packet builder, '
             'stored as last_poll_interval and used for the timer; current_poll_interval = Ord::max(desired, remote_min)')
    P = ctx.P
    b = P.body(SRC + '::handle_timer')
    cpi = one(b.calls(r'NtpSource::current_poll_interval$'), 'current_poll_interval call')
    dest = cpi.data['dest']
    ctx.check('handle_timer|poll-local', not dest['p'] and len([d for d in b.defs()[dest['l']] if d[2] != 'partial']) == 1,
              'poll interval local is reassigned', cpi.where())
    name = b.local_name(dest['l'])
    builders = some(b.calls(r'NtpPacket::(nts_)?poll_message(_v5|_upgrade_request)?$'), 'poll message builders')
    ctx.check('handle_timer|builder-count', len(builders) == 5, 'expected 5 builder call sites, found %d' % len(builders), sample=len(builders))
    for s in builders:
        last = b.call_args(s)[-1]
        ctx.check('handle_timer|%s|poll-arg' % site_desc(b, s), N(last) == name,
                  'builder receives `%s` instead of the computed poll interval' % N(last), s.where(), sample=N(last))
    ws = [s for s, w in self_writes(b) if w == 'last_poll_interval']
    ctx.check('handle_timer|last_poll_interval-write', len(ws) == 1 and N(b.rvalue_term(ws[0].data['rv'])) == name,
              'last_poll_interval is not set to the poll interval used', sample=[N(b.rvalue_term(w.data['rv'])) for w in ws])
    c = P.body(SRC + '::current_poll_interval')
    vals = [v for _, v in ret_assigns(c)]
    ok = len(vals) == 1 and vals[0] in (
        'Ord::max(SourceController::desired_poll_interval(self.controller), self.remote_min_poll_interval)',
        'Ord::max(self.remote_min_poll_interval, SourceController::desired_poll_interval(self.controller))')
    ctx.check('current_poll_interval|value', ok, 'current_poll_interval is %s' % vals, sample=vals)


def r2(ctx):
    ctx.rule('C10-R2', 'SetTimer = poll_interval.as_system_duration().mul_f64(gen_range(1.01..=1.05))')
    b = ctx.P.body(SRC + '::handle_timer')
    st = one(b.aggregates(r'NtpSourceAction$', 'SetTimer'), 'SetTimer construction')
    v = S(b.operand_term(st.data['rv']['ops'][0]))
    ok = re.match(r'^Duration::mul_f64\(PollInterval::as_system_duration\(NtpSource::current_poll_interval\(self\)\), '
                  r'Rng::gen_range\(thread::thread_rng\(\), RangeInclusive::new\(1\.01, 1\.05\)\)\)$', v) is not None
    ctx.check('handle_timer|timer-value', ok, 'timer duration is `%s`' % v, st.where(), sample=v)
    cpi = one(b.calls(r'NtpSource::current_poll_interval$'), 'current_poll_interval call')
    nm = b.local_name(cpi.data['dest']['l'])
    asd = one(b.calls(r'PollInterval::as_system_duration$'), 'as_system_duration call')
    ctx.check('handle_timer|timer-uses-same-interval', N(b.call_args(asd)[0]) == nm,
              'timer computed from a different interval than the one sent', asd.where(), sample=N(b.call_args(asd)[0]))


def r3(ctx):
    ctx.rule('C10-R3', 'SourceFilter.desired_poll_interval is only ever: initial_poll_interval (construction), limits.min, '
             '.inc(limits), .dec(limits); PollInterval::inc = min(self+1, limits.max), dec = max(self-1, limits.min); '
             'get_desired_poll returns limits.min while initialising')
    P = ctx.P
    writers = P.field_writers('desired_poll_interval', r'SourceFilter$')
    ok_forms = [
        r'^source_config\.poll_interval_limits\.min$',
        r'^PollInterval::inc\(self\.desired_poll_interval, source_config\.poll_interval_limits\)$',
        r'^PollInterval::dec\(self\.desired_poll_interval, source_config\.poll_interval_limits\)$',
    ]
    n = 0
    for bd, s in writers:
        if s.kind == 'mutborrow':
            ctx.check('%s|desired-mutborrow' % bd.npath, False, 'desired_poll_interval is mutably borrowed', s.where())
            continue
        v = written_value(bd, s)
        n += 1
        ctx.check('%s|desired-write|%s' % (bd.npath, v), any(re.match(f, v) for f in ok_forms),
                  'desired_poll_interval written with `%s`' % v, s.where(), sample=v)
    ctx.check('desired-writers|count', n == 3, 'expected 3 writes of desired_poll_interval (min, inc, dec), found %d' % n, sample=n)
    inits = field_inits(P, r'kalman::source::SourceFilter$', 'desired_poll_interval')
    for bd, s, t in inits:
        v = S(t)
        ctx.check('%s|desired-init' % bd.npath, v in ('source_config.initial_poll_interval', 'PollInterval::clone(self.desired_poll_interval)'),
                  'SourceFilter constructed with desired_poll_interval = `%s`' % v, s.where(), sample=v)
    ctx.check('desired-inits|count', len(inits) >= 1, 'no SourceFilter construction found', sample=len(inits))
    T = 'ntp_proto::time_types::PollInterval'
    inc = [v for _, v in ret_assigns(P.body(T + '::inc'))]
    dec = [v for _, v in ret_assigns(P.body(T + '::dec'))]
    ctx.check('PollInterval::inc|shape', inc in (['Ord::min(PollInterval{0: (self.0 + 1)}, limits.max)'], ['Ord::min(PollInterval{0: num::saturating_add(self.0, 1)}, limits.max)']),
              'PollInterval::inc is %s' % inc, sample=inc)
    ctx.check('PollInterval::dec|shape', dec in (['Ord::max(PollInterval{0: (self.0 - 1)}, limits.min)'], ['Ord::max(PollInterval{0: num::saturating_sub(self.0, 1)}, limits.min)']),
              'PollInterval::dec is %s' % dec, sample=dec)
    g = P.body(KS + '::SourceState::get_desired_poll')
    for s, v in ret_assigns(g):
        if v == 'limits.min':
            ctx.guard(g, s, 'initial', fact_is(r'^self\.0$', 'Initial'), key='get_desired_poll|min|initial')
        else:
            ctx.check('get_desired_poll|stable-value', re.match(r'^\(self\.0 as Stable\)\.0\.desired_poll_interval$', v) is not None,
                      'get_desired_poll returns `%s`' % v, s.where(), sample=v)


def r4(ctx):
    ctx.rule('C10-R4', 'remote_min_poll_interval writers: construction with limits.min, the RATE rule (C09-R1) and '
             'requested_poll under requested_poll > remote_min_poll_interval')
    P = ctx.P
    ws = P.field_writers('remote_min_poll_interval', r'NtpSource$')
    by = sorted((bd.npath, written_value(bd, s)) for bd, s in ws)
    exp = sorted([
        (SRC + '::handle_incoming', 'Ord::max(PollInterval::inc(self.remote_min_poll_interval, self.source_config.poll_interval_limits), self.last_poll_interval)'),
        (SRC + '::process_message', 'NtpPacket::poll(message)'),
    ])
    ctx.check('remote_min|writers', by == exp, 'writers of remote_min_poll_interval are %s' % by, sample=by)
    pm = P.body(SRC + '::process_message')
    for bd, s in ws:
        if bd.npath.endswith('process_message'):
            ctx.guard(pm, s, 'requested>remote_min', fact_cmp('Gt', r'^NtpPacket::poll\(message\)$', r'^self\.remote_min_poll_interval$'))
    inits = field_inits(P, r'source::NtpSource$', 'remote_min_poll_interval', bodies=[P.body(SRC + '::new')])
    for bd, s, t in inits:
        ctx.check('new|remote_min-init', S(t) == 'source_config.poll_interval_limits.min', 'initial remote_min is `%s`' % S(t), s.where(), sample=S(t))
    ctx.check('new|remote_min-init-count', len(inits) == 1, 'NtpSource::new construction not found', sample=len(inits))


RULES = [r1, r2, r3, r4]
FLOORS = {'C10-R1': 9, 'C10-R2': 2, 'C10-R3': 9, 'C10-R4': 4}
