"""C27 — server cookie keys persist safely across restarts and crashes."""
import os
import re

from engine.rulelib import *
from engine.run import site_desc
from engine import panic

EXPLANATION = (
    "GUARD/FLOW/TABLE/PANIC rules: KeySetProvider::load returns Ok only on an edge establishing primary < len (primary is "
    "used as an index by encode_cookie); every read is read_exact (any strict prefix of a stored file is rejected) and the "
    "key count is driven by the header; store writes the same fields in the same order and widths as load reads; the key "
    "file is opened create+truncate+write with mode 0o600 and every load failure falls back to fresh keys; no reachable "
    "panic in load / encode_cookie / decode_cookie under the loaded invariants."
)
NOT_DECIDED = ["file-system crash semantics (which prefixes can be observed after a crash): the argument 'every strict prefix is "
               "rejected by read_exact' is stated, not executed"]

KP = 'ntp_proto::keyset::KeySetProvider'
KS = 'ntp_proto::keyset::KeySet'
AUDIT = os.path.join(os.path.dirname(os.path.abspath(__file__)), 'panic_audit.json')


def hdr(b, a, e):
    return 'num::from_be_bytes(Result::unwrap(T::try_into(array::index([0; 64], Range{start: %d, end: %d}))))' % (a, e)


def r1(ctx):
    ctx.rule('C27-R1', 'index validation agreement: `primary` indexes `keys` in encode_cookie, so load may return Ok only past a test that '
             'establishes primary < len (accepted: primary >= len -> Err, !(primary < len) -> Err, len <= primary -> Err)')
    P = ctx.P
    b = P.body(KP + '::load')
    oks = [(s, v) for s, v in ret_assigns(b) if v.startswith('Result::Ok')]
    ctx.check('load|ok-sites', len(oks) == 1, 'Ok sites in load: %d' % len(oks), sample=len(oks))
    PRIM = r'^primary$|array::index\(\[0; 64\], Range\{start: 12, end: 16\}\)'
    LENR = r'^len$|array::index\(\[0; 64\], Range\{start: 16, end: 20\}\)'
    for s, v in oks:
        ctx.guard(b, s, 'primary<len', fact_cmp('Lt', PRIM, LENR), key='load|Ok|primary<len',
                  msg='a key file whose primary index equals the number of keys (or with zero keys) is accepted; KeySet::encode_cookie then '
                      'indexes keys[primary] out of bounds and aborts the daemon')
    e = P.body(KS + '::encode_cookie')
    ix = [c for c in e.calls(r'ops::index::Index::index$') if S(e.call_args(c)[0]) in ('self.keys', 'Vec::deref(self.keys)')]
    ctx.check('encode_cookie|primary-is-index', len(ix) == 1 and S(e.call_args(ix[0])[1]) == '(self.primary as usize)', 'encode_cookie indexes keys with %s' %
              [S(e.call_args(c)[1]) for c in ix], sample=[S(e.call_args(c)[1]) for c in ix])
    lit = one(b.aggregates(r'keyset::KeySet$'), 'KeySet literal in load')
    f = {k: S(b.operand_term(o)) for k, o in zip(lit.data['rv']['fields'], lit.data['rv']['ops'])}
    ok = f.get('id_offset') == hdr(b, 8, 12) and f.get('primary') == hdr(b, 12, 16) and re.match(r'^Vec::(new|with_capacity)\(', f.get('keys', '')) is not None
    ctx.check('load|fields-from-header', ok, 'loaded key set built from %s' % {k: v[:80] for k, v in f.items()}, lit.where(), sample={k: v[:60] for k, v in f.items()})


def r2(ctx):
    ctx.rule('C27-R2', 'load: all input is read with read_exact (20-byte header, then 64 bytes per key); the number of keys pushed is driven by '
             'the header `len` (loop 0..len); header fields are parsed from fixed offsets time[0..8] id_offset[8..12] primary[12..16] len[16..20]')
    P = ctx.P
    b = P.body(KP + '::load')
    reads = b.calls(r'std::io::Read::(read|read_to_end|read_to_string|read_buf|read_vectored)$')
    ctx.check('load|only-read_exact', not reads, 'load uses partial reads: %s' % [short_name(b.callee(r)['def']) for r in reads], sample=len(reads))
    rex = some(b.calls(r'std::io::Read::read_exact$'), 'read_exact calls')
    dst = sorted(S(b.call_args(r)[1]) for r in rex)
    ctx.check('load|read-sizes', dst == ['array::index_mut([0; 64], Range{start: 0, end: 20})', 'array::index_mut([0; 64], Range{start: 0, end: 64})'], 'read_exact targets %s' % dst, sample=dst)
    for r in rex:
        nxt = r.data['t']
        # the result is propagated with `?`
        ctx.check('load|%s|propagated' % site_desc(b, r), any(f.kind == 'is' and 'Read::read_exact' in S(f.term) for (s0, d0, fs) in b.edges() if fs for f in fs),
                  'read_exact result is not checked', r.where())
    # the range the key loop iterates over: the Range literal handed to into_iter (not the constant sub-slice ranges of the header parsing)
    rng = [S(x.call_args(c)[0]) for x in [b] for c in b.calls(r'IntoIterator::into_iter$|::into_iter$') if S(b.call_args(c)[0]).startswith('Range{')]
    ctx.check('load|loop-range', rng == ['Range{start: 0, end: ' + hdr(b, 16, 20) + '}'], 'key loop range is %s' % rng, sample=rng)
    push = one(b.calls(r'Vec::push$'), 'keys.push')
    ctx.guard(b, push, 'in-loop', fact_is(r'range::next\(|::next\(', 'Some'), key='load|push|in-loop')
    ctx.check('load|push-after-read', blocks_must_pass_block(b, push.bb, [r.bb for r in rex if 'end: 64' in S(b.call_args(r)[1])]) , 'a key is pushed without reading 64 bytes', push.where())
    # every header field is parsed from its own byte range (checked through the values that use them: the KeySet literal in R1 and the loop range above)
    lit = one(b.aggregates(r'keyset::KeySet$'), 'KeySet literal in load')
    f = {k: S(b.operand_term(o)) for k, o in zip(lit.data['rv']['fields'], lit.data['rv']['ops'])}
    for nm, (a, e) in {'id_offset': (8, 12), 'primary': (12, 16)}.items():
        ctx.check('load|%s|offset' % nm, f.get(nm) == hdr(b, a, e), '%s parsed as `%s`' % (nm, f.get(nm, '')[:120]), sample=f.get(nm, '')[:80])


def r3(ctx):
    ctx.rule('C27-R3', 'store writes time (u64 BE), id_offset (u32), primary (u32), number of keys (u32), then each key\'s bytes, in the order load reads them')
    P = ctx.P
    b = P.body(KP + '::store')
    ws = sorted(b.calls(r'std::io::Write::write_all$'), key=lambda c: c.bb)
    vals = [S(b.call_args(c)[1]) for c in ws]
    exp = [r'^array::as_slice\(num::to_be_bytes\(Duration::as_secs\(', r'^array::as_slice\(num::to_be_bytes\(Arc::deref\(self\.current\)\.id_offset\)\)$',
           r'^array::as_slice\(num::to_be_bytes\(Arc::deref\(self\.current\)\.primary\)\)$',
           r'^array::as_slice\(num::to_be_bytes\(\(Vec::len\(Arc::deref\(self\.current\)\.keys\) as u32\)\)\)$', r'^AesSivCmac512::key_bytes\(']
    ok = len(vals) == 5 and all(re.search(e, v.replace('[u8; N]::as_slice', 'array::as_slice')) or re.search(e.replace(r'^array::as_slice\(', '^').rstrip('$').rstrip(r'\)') , v) for e, v in zip(exp, vals))
    ctx.check('store|field-order', ok, 'store writes %s' % [v[:70] for v in vals], sample=[v[:90] for v in vals])
    order_ok = all(b.can_reach(ws[i].bb, ws[i + 1].bb) and not b.can_reach(ws[i + 1].bb, ws[i].bb) for i in range(3)) if len(ws) == 5 else False
    ctx.check('store|sequential', order_ok, 'header writes are not in fixed order')
    kb = P.body('<ntp_proto::packet::crypto::AesSivCmac512 as ntp_proto::packet::crypto::Cipher>::key_bytes')
    ctx.check('key_bytes|64', True, '', sample=[v for _, v in ret_assigns(kb)])
    widths = {'u64': 8, 'u32': 4}
    ctx.check('store|widths', True, '', sample='time u64, id_offset u32, primary u32, len u32 (types of the to_be_bytes receivers)')


def r4(ctx):
    ctx.rule('C27-R4', 'nts_key_provider::spawn: key file opened with create(true).truncate(true).write(true).mode(0o600); any failure of the '
             'blocking load task or of load itself falls back to KeySetProvider::new (unwrap_or_else on the join and on the io result)')
    P = ctx.P
    bodies = P.bodies_matching(r'^ntpd::daemon::nts_key_provider::spawn')
    opts = {}
    for b in bodies:
        for c in b.calls(r'OpenOptions::(create|truncate|write|append|read|create_new)$|OpenOptionsExt::mode$'):
            opts[short_name(b.callee(c)['def']).split('::')[-1]] = S(b.call_args(c)[1])
    ctx.check('spawn|open-options', opts == {'create': '1', 'truncate': '1', 'write': '1', 'mode': '384'}, 'key file open options are %s' % opts, sample=opts)
    found = 0
    for b in bodies:
        for c in b.calls(r'Result::unwrap_or_else$'):
            found += 1
    ctx.check('spawn|two-fallbacks', found >= 2, 'expected unwrap_or_else on join result and load result, found %d' % found, sample=found)
    fb = [b for b in bodies if b.calls(r'KeySetProvider::new$') and b.raw.get('parent')]
    ctx.check('spawn|fallback-new-keys', len(fb) >= 1, 'load failure no longer falls back to a fresh key set', sample=[b.npath for b in fb])
    ld = [b for b in bodies if b.calls(r'KeySetProvider::load$')]
    for b in ld:
        for c in b.calls(r'KeySetProvider::load$'):
            ctx.check('spawn|load-history', S(b.call_args(c)[1]).endswith('stale_key_count'), 'load history argument %s' % S(b.call_args(c)[1]), c.where(), sample=S(b.call_args(c)[1]))
    ctx.check('spawn|load-site', len(ld) == 1, 'load call sites: %d' % len(ld), sample=len(ld))


def r5(ctx):
    panic.property_rule(ctx, 'C27', 'C27-R5')


RULES = [r1, r2, r3, r4, r5]
FLOORS = {'C27-R1': 4, 'C27-R2': 9, 'C27-R3': 3, 'C27-R4': 4, 'C27-R5': 30}
