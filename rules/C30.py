"""C30 — NTS-KE messages are parsed totally, boundedly and round-trip (structural part)."""
import re
from engine.rulelib import *
from engine.run import site_desc
from engine import panic

EXPLANATION = (
    "TYPE/TABLE/PANIC rules: Request::parse and KeyExchangeResponse::parse hand NtsRecord::parse only a reader wrapped in "
    "take(MAX_MESSAGE_SIZE = 4096); each record body is read through reader.take(size) with a u16 size; the record-number "
    "dispatch of NtsRecord::parse agrees with record_type() (critical bit folded) for every variant the helpers construct; "
    "the u16 codecs of AeadAlgorithm/NextProtocol/ErrorCode/WarningCode are mutually inverse; no reachable panic in the "
    "parsers and serializers."
    ' The 16-bit length header of every record variant (body_size) equals the bytes serialize writes for it.'
)
NOT_DECIDED = ["value-level round-trip equality of records, requests and responses"]
R = 'ntp_proto::nts::record::NtsRecord'
M = 'ntp_proto::nts::messages'


def r1(ctx):
    ctx.rule('C30-R1', 'Request::parse / KeyExchangeResponse::parse: every NtsRecord::parse call reads from AsyncReadExt::take(reader, MAX_MESSAGE_SIZE) '
             'with MAX_MESSAGE_SIZE == 4096 and the unwrapped reader is not used otherwise; NtsRecord::parse reads the body through take(size as u64)')
    P = ctx.P
    ctx.check('MAX_MESSAGE_SIZE', P.const_val(M + '::MAX_MESSAGE_SIZE') == '4096', 'MAX_MESSAGE_SIZE is %s' % P.const_val(M + '::MAX_MESSAGE_SIZE'), sample=P.const_val(M + '::MAX_MESSAGE_SIZE'))
    for nm in ('Request', 'KeyExchangeResponse'):
        b = P.body('%s::%s::parse::{closure#0}' % (M, nm))
        calls = some(b.calls(r'NtsRecord::parse$'), 'NtsRecord::parse in %s::parse' % nm)
        for s in calls:
            a = S(b.call_args(s)[0])
            ctx.check('%s::parse|%s|bounded-reader' % (nm, site_desc(b, s)), a == 'AsyncReadExt::take(reader, MAX_MESSAGE_SIZE=4096)', 'NtsRecord::parse reads from `%s`' % a, s.where(), sample=a)
        takes = b.calls(r'AsyncReadExt::take$')
        ctx.check('%s::parse|one-take' % nm, len(takes) == 1, 'take() sites: %d' % len(takes), sample=len(takes))
        # the limit is a budget for the whole message: the limited reader is created once, before the record loop (a take()
        # that can be reached again after a record was parsed starts a fresh 4096-byte budget per record)
        inloop = [site_desc(b, c) for c in calls for t in takes if b.can_reach(c.bb, t.bb)]
        ctx.check('%s::parse|take-before-record-loop' % nm, not inloop, 'take(MAX_MESSAGE_SIZE) is re-executed after %s: the 4096-byte limit applies per record, not per message' % inloop, takes[0].where() if takes else None, sample=len(inloop))
        # no other read from the raw reader
        raw = [s for s in b.calls(r'AsyncReadExt::(read|read_exact|read_u16|read_to_end|read_buf)$')]
        ctx.check('%s::parse|no-raw-reads' % nm, not raw, '%s::parse reads directly from the connection' % nm, sample=len(raw))
    p = P.body(R + '::parse::{closure#0}')
    tk = one(p.calls(r'AsyncReadExt::take$'), 'reader.take(size) in NtsRecord::parse')
    a = [S(x) for x in p.call_args(tk)]
    ctx.check('NtsRecord::parse|body-take', a[0] == 'reader' and re.search(r'ReadU16', a[1]) is not None, 'record body bound is `%s`' % a[1][:100], tk.where(), sample=a[1][:80])
    bounded = S(p.call_term(tk.data)) if hasattr(p, 'call_term') else None
    for s in p.calls(r'NtsRecord::parse_\w+$'):
        got = S(p.call_args(s)[0])
        ctx.check('NtsRecord::parse|%s|reads-from-take' % short_name(p.callee(s)['def']).split('::')[-1], got == 'AsyncReadExt::take(%s, %s)' % (a[0], a[1]),
                  'helper reads from `%s`, not from the length-bounded record body' % got[:120], s.where(), sample=got[:60])


def r2(ctx):
    ctx.rule('C30-R2', 'record numbers: for every parse_* helper, the number that dispatches to it equals record_type() & 0x7FFF of the variant the '
             'helper constructs; the catch-all arm builds Unknown with the parsed number and critical bit, and record_type() of Unknown is '
             'record_type | (critical ? 0x8000 : 0)')
    P = ctx.P
    p = P.body(R + '::parse::{closure#0}')
    enc = encode_table(P.body(R + '::record_type'))
    encn = {}
    for var, v in enc.items():
        m = re.match(r'^\((\d+) \| CRITICAL_BIT=32768\)$', v)
        if m:
            encn[var] = int(m.group(1))
        elif re.match(r'^\d+$', v):
            encn[var] = int(v)
    n = 0
    for s in p.calls(r'NtsRecord::parse_\w+$'):
        helper = short_name(p.callee(s)['def']).split('::')[-1]
        nums = [int(v) for (_, _, fs) in p.dominating_facts(s.bb) for f in fs if f.kind == 'eq' for v in f.values]
        hb = P.bodies_matching(r'^ntp_proto::nts::record::NtsRecord::%s::\{closure#0\}$' % helper)
        variants = sorted({a.data['rv']['variant'] for b in hb for a in b.aggregates(r'nts::record::NtsRecord$')})
        ok = len(nums) == 1 and len(variants) == 1 and encn.get(variants[0]) == nums[0]
        n += 1
        ctx.check('dispatch|%s' % helper, ok, 'record number %s dispatches to %s which builds %s (encoded as %s)' % (nums, helper, variants, [encn.get(v) for v in variants]),
                  s.where(), sample={'number': nums, 'variant': variants})
    ctx.check('dispatch|helpers', n == 14, 'dispatch arms: %d' % n, sample=n)
    ctx.check('record_type|unknown', re.match(r'^&?u16::bitor\(\(self as Unknown\)\.record_type, \{0 \| CRITICAL_BIT=32768\}\)$', enc.get('Unknown', '')) is not None,
              'Unknown encodes as %s' % enc.get('Unknown'), sample=enc.get('Unknown'))
    unk = [a for a in p.aggregates(r'nts::record::NtsRecord$', 'Unknown')]
    for a in unk:
        f = {k: S(p.operand_term(o)) for k, o in zip(a.data['rv']['fields'], a.data['rv']['ops'])}
        # name-free: the stored number is the 16-bit word read from the wire without the critical bit, the flag is that bit
        ok = re.match(r'^\(.*read_u16\(reader\).* & 32767\)$', f.get('record_type', '')) is not None and re.match(r'^\(\(.*read_u16\(reader\).* & 32768\) != 0\)$', f.get('critical', '')) is not None
        ctx.check('parse|unknown-fields', ok, 'Unknown built from %s' % {k: v[-40:] for k, v in f.items()}, a.where(), sample={k: f[k][-40:] for k in ('record_type', 'critical')})
    ctx.check('record_type|all-variants', len(enc) == 15, 'record_type covers %d variants' % len(enc), sample=sorted(enc))


def r3(ctx):
    ctx.rule('C30-R3', 'From<u16> and Into<u16> of AeadAlgorithm, NextProtocol, ErrorCode, WarningCode are mutually inverse on named values and the '
             'identity on Unknown(v)')
    P = ctx.P
    for en in ('AeadAlgorithm', 'NextProtocol', 'ErrorCode', 'WarningCode'):
        d = P.body('<ntp_proto::nts::%s as core::convert::From>::from' % en)
        e = P.body_full('ntp_proto::nts::<impl core::convert::From<ntp_proto::nts::%s> for u16>::from' % en)
        if len(P.adt('ntp_proto::nts::' + en)['variants']) == 1:
            dv = [v for _, v in ret_assigns(d)]
            ev = [v for _, v in ret_assigns(e)]
            ctx.check('%s|single-variant-identity' % en, len(dv) == 1 and re.match(r'^%s::Unknown\{0: (\w+)\}$' % en, dv[0]) is not None and len(ev) == 1
                      and re.match(r'^\(\w+ as Unknown\)\.0$', ev[0]) is not None, '%s conversions: %s / %s' % (en, dv, ev), sample=[dv, ev])
            ctx.check('%s|single-variant' % en, True, '', sample='only Unknown(u16)')
            continue
        dec, dflt = decode_table(d, r'^value$|^\w+$')
        enc = encode_table(e, r'^value$|^\w+$')
        ok = True
        for num, v in dec.items():
            var = re.match(r'^%s::(\w+)\{\}$' % en, v)
            if not var or enc.get(var.group(1)) != str(num):
                ok = False
        ctx.check('%s|inverse' % en, ok and len(dec) >= 1 and len(enc) == len(dec) + 1, '%s decode %s / encode %s' % (en, dec, enc), sample={'decode': {str(k): v for k, v in dec.items()}, 'encode': enc})
        ctx.check('%s|unknown-identity' % en, len(dflt) == 1 and re.match(r'^%s::Unknown\{0: \w+\}$' % en, dflt[0]) is not None and re.match(r'^\(\w+ as Unknown\)\.0$', enc.get('Unknown', '')) is not None,
                  '%s Unknown handling: %s / %s' % (en, dflt, enc.get('Unknown')), sample=[dflt, enc.get('Unknown')])


def r4(ctx):
    panic.property_rule(ctx, 'C30', 'C30-R4')


def r5(ctx):
    ctx.rule('C30-R5', 'length header agreement: for every record variant, NtsRecord::body_size (written as the 16-bit length) equals the number of bytes '
             'NtsRecord::serialize writes for that variant: 2 per write_u16, 2 per write_u16 and element in a loop over a field, the byte length of every '
             'field handed to write_all (string fields: str::len, the UTF-8 byte length, for `as_bytes()`)')
    P = ctx.P
    R = 'ntp_proto::nts::record::NtsRecord'
    variants = [v['name'] for v in P.adt(R)['variants']]
    b = P.body(R + '::body_size')
    so = [P and b.callee(c) for c in b.calls(r'mem::size_of$')]
    ctx.check('body_size|unit-is-u16', bool(so) and all('u16' in str(fi.get('gargs')) for fi in so), 'size_of units: %s' % [fi.get('gargs') for fi in so], sample=len(so))

    def poly_of_size(v):
        """expanded body_size expression -> {field or '': multiplier}"""
        out = {}
        v = v.replace('mem::size_of()', '2')
        for term in split_top(v, ' + '):
            mult = 1
            t = term
            while True:
                m = re.match(r'^\((.*) \* (\d+)\)$', t)
                if not m:
                    break
                t, mult = m.group(1), mult * int(m.group(2))
            m = re.match(r'^(?:slice|str)::len\(Cow::deref\((\(self as \w+\)\.\w+)\)\)$', t)
            if m:
                out[m.group(1)] = out.get(m.group(1), 0) + mult
            elif re.match(r'^\d+$', t):
                out[''] = out.get('', 0) + int(t) * mult
            else:
                out['?' + t[:60]] = mult
        return {k: n for k, n in out.items() if n}

    def split_top(v, sep):
        if v.startswith('(') and v.endswith(')'):
            depth, parts, cur, i = 0, [], '', 1
            inner = v[1:-1]
            # only split when the outer parentheses enclose a sum
            d = 0
            idx = []
            for k, ch in enumerate(inner):
                if ch in '([{':
                    d += 1
                elif ch in ')]}':
                    d -= 1
                elif d == 0 and inner.startswith(sep, k):
                    idx.append(k)
            if idx:
                parts, last = [], 0
                for k in idx:
                    parts.append(inner[last:k])
                    last = k + len(sep)
                parts.append(inner[last:])
                return parts
        return [v]

    size = {}
    for s, v in ret_assigns(b):
        arms = set()
        for (_, _, fs) in b.dominating_facts(s.bb):
            for f in fs:
                if f.kind == 'is' and tstr(f.term) == 'self':
                    arms |= set(f.variants)
        for a in arms:
            size[a] = poly_of_size(v)
    e = P.body(R + '::serialize::{closure#0}')
    wrote = {v: {} for v in variants}
    for c in e.calls(r'AsyncWriteExt::write_u16$|AsyncWriteExt::write_all$'):
        arms = [x for x in variants if e.must_pass(c.bb, fact_is(r'self$', [x]))]
        if not arms:
            continue        # the record type and the length header themselves
        a = S(e.call_args(c)[1])
        is16 = e.callee(c)['def'].endswith('write_u16')
        loop = bool(e.succ(c.bb)) and e.can_reach(e.succ(c.bb)[0], c.bb)
        for x in arms:
            w = wrote[x]
            if is16 and not loop:
                w[''] = w.get('', 0) + 2
            elif is16:
                m = re.search(r'Iter::next\(I::into_iter\(slice::iter\(Cow::deref\((\(self as \w+\)\.\w+)\)\)\)\)', a)
                k = m.group(1) if m else '?' + a[:60]
                w[k] = w.get(k, 0) + 2
            else:
                m = re.match(r'^(?:str::as_bytes\()?Cow::deref\((\(self as \w+\)\.\w+)\)\)?$', a)
                k = m.group(1) if m else '?' + a[:60]
                w[k] = w.get(k, 0) + 1
    ctx.check('body_size|all-variants', set(size) == set(variants), 'body_size covers %s' % sorted(size), sample=sorted(size))
    for x in variants:
        ctx.check('body_size|%s|equals-bytes-written' % x, size.get(x) == wrote[x], 'record %s: length header is %s but serialize writes %s (field -> bytes per element)' % (
            x, size.get(x), wrote[x]), sample=[size.get(x), wrote[x]])


RULES = [r1, r2, r3, r4, r5]
FLOORS = {'C30-R1': 20, 'C30-R2': 17, 'C30-R3': 8, 'C30-R4': 4, 'C30-R5': 17}
