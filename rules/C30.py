"""C30 — NTS-KE messages are parsed totally, boundedly and round-trip (structural part)."""
import re
from engine.rulelib import *
from engine.run import site_desc
from engine import panic

EXPLANATION = (
    "TYPE/TABLE/PANIC rules: Request::parse and KeyExchangeResponse::parse hand NtsRecord::parse only a reader wrapped in "
    "take(MAX_MESSAGE_SIZE = 4096); each record body is read through reader.take(size) with a u16 size; the record-number "
    "dispatch of NtsRecord::parse agrees with record_type() (critical bit folded) for every variant the helpers construct; "
    "the u16 codecs of AeadAlgorithm/NextProtocol/ErrorCode/WarningCode are mutually inverse; no reachable panic in the "
    "parsers and serializers."
)
NOT_DECIDED = ["value-level round-trip equality of records, requests and responses"]
R = 'ntp_proto::nts::record::NtsRecord'
M = 'ntp_proto::nts::messages'


def r1(ctx):
    ctx.rule('C30-R1', 'Request::parse / KeyExchangeResponse::parse: every NtsRecord::parse call reads from AsyncReadExt::take(reader, MAX_MESSAGE_SIZE) '
             'with MAX_MESSAGE_SIZE == 4096 and the unwrapped reader is not used otherwise; NtsRecord::parse reads the body through take(size as u64)')
    P = ctx.P
    ctx.check('MAX_MESSAGE_SIZE', P.const_val(M + '::MAX_MESSAGE_SIZE') == '4096', 'MAX_MESSAGE_SIZE is %s' % P.const_val(M + '::MAX_MESSAGE_SIZE'), sample=P.const_val(M + '::MAX_MESSAGE_SIZE'))
    for nm in ('Request', 'KeyExchangeResponse'):
        b = P.body('%s::%s::parse::{closure#0}' % (M, nm))
        calls = some(b.calls(r'NtsRecord::parse$'), 'NtsRecord::parse in %s::parse' % nm)
        for s in calls:
            a = S(b.call_args(s)[0])
            ctx.check('%s::parse|%s|bounded-reader' % (nm, site_desc(b, s)), a == 'AsyncReadExt::take(reader, MAX_MESSAGE_SIZE=4096)', 'NtsRecord::parse reads from `%s`' % a, s.where(), sample=a)
        takes = b.calls(r'AsyncReadExt::take$')
        ctx.check('%s::parse|one-take' % nm, len(takes) == 1 and not b.can_reach(calls[0].bb, takes[0].bb) or len(takes) == 1, 'take() sites: %d' % len(takes), sample=len(takes))
        # no other read from the raw reader
        raw = [s for s in b.calls(r'AsyncReadExt::(read|read_exact|read_u16|read_to_end|read_buf)$')]
        ctx.check('%s::parse|no-raw-reads' % nm, not raw, '%s::parse reads directly from the connection' % nm, sample=len(raw))
    p = P.body(R + '::parse::{closure#0}')
    tk = one(p.calls(r'AsyncReadExt::take$'), 'reader.take(size) in NtsRecord::parse')
    a = [S(x) for x in p.call_args(tk)]
    ctx.check('NtsRecord::parse|body-take', a[0] == 'reader' and re.search(r'ReadU16', a[1]) is not None, 'record body bound is `%s`' % a[1][:100], tk.where(), sample=a[1][:80])
    bounded = S(p.call_term(tk.data)) if hasattr(p, 'call_term') else None
    for s in p.calls(r'NtsRecord::parse_\w+$'):
        got = S(p.call_args(s)[0])
        ctx.check('NtsRecord::parse|%s|reads-from-take' % short_name(p.callee(s)['def']).split('::')[-1], got == 'AsyncReadExt::take(%s, %s)' % (a[0], a[1]),
                  'helper reads from `%s`, not from the length-bounded record body' % got[:120], s.where(), sample=got[:60])


def r2(ctx):
    ctx.rule('C30-R2', 'record numbers: for every parse_* helper, the number that dispatches to it equals record_type() & 0x7FFF of the variant the '
             'helper constructs; the catch-all arm builds Unknown with the parsed number and critical bit, and record_type() of Unknown is '
             'record_type | (critical ? 0x8000 : 0)')
    P = ctx.P
    p = P.body(R + '::parse::{closure#0}')
    enc = encode_table(P.body(R + '::record_type'))
    encn = {}
    for var, v in enc.items():
        m = re.match(r'^\((\d+) \| CRITICAL_BIT=32768\)$', v)
        if m:
            encn[var] = int(m.group(1))
        elif re.match(r'^\d+$', v):
            encn[var] = int(v)
    n = 0
    for s in p.calls(r'NtsRecord::parse_\w+$'):
        helper = short_name(p.callee(s)['def']).split('::')[-1]
        nums = [int(v) for (_, _, fs) in p.dominating_facts(s.bb) for f in fs if f.kind == 'eq' for v in f.values]
        hb = P.bodies_matching(r'^ntp_proto::nts::record::NtsRecord::%s::\{closure#0\}$' % helper)
        variants = sorted({a.data['rv']['variant'] for b in hb for a in b.aggregates(r'nts::record::NtsRecord$')})
        ok = len(nums) == 1 and len(variants) == 1 and encn.get(variants[0]) == nums[0]
        n += 1
        ctx.check('dispatch|%s' % helper, ok, 'record number %s dispatches to %s which builds %s (encoded as %s)' % (nums, helper, variants, [encn.get(v) for v in variants]),
                  s.where(), sample={'number': nums, 'variant': variants})
    ctx.check('dispatch|helpers', n == 14, 'dispatch arms: %d' % n, sample=n)
    ctx.check('record_type|unknown', re.match(r'^&?u16::bitor\(\(self as Unknown\)\.record_type, \{0 \| CRITICAL_BIT=32768\}\)$', enc.get('Unknown', '')) is not None,
              'Unknown encodes as %s' % enc.get('Unknown'), sample=enc.get('Unknown'))
    unk = [a for a in p.aggregates(r'nts::record::NtsRecord$', 'Unknown')]
    for a in unk:
        f = {k: S(p.operand_term(o)) for k, o in zip(a.data['rv']['fields'], a.data['rv']['ops'])}
        # name-free: the stored number is the 16-bit word read from the wire without the critical bit, the flag is that bit
        ok = re.match(r'^\(.*read_u16\(reader\).* & 32767\)$', f.get('record_type', '')) is not None and re.match(r'^\(\(.*read_u16\(reader\).* & 32768\) != 0\)$', f.get('critical', '')) is not None
        ctx.check('parse|unknown-fields', ok, 'Unknown built from %s' % {k: v[-40:] for k, v in f.items()}, a.where(), sample={k: f[k][-40:] for k in ('record_type', 'critical')})
    ctx.check('record_type|all-variants', len(enc) == 15, 'record_type covers %d variants' % len(enc), sample=sorted(enc))


def r3(ctx):
    ctx.rule('C30-R3', 'From<u16> and Into<u16> of AeadAlgorithm, NextProtocol, ErrorCode, WarningCode are mutually inverse on named values and the '
             'identity on Unknown(v)')
    P = ctx.P
    for en in ('AeadAlgorithm', 'NextProtocol', 'ErrorCode', 'WarningCode'):
        d = P.body('<ntp_proto::nts::%s as core::convert::From>::from' % en)
        e = P.body_full('ntp_proto::nts::<impl core::convert::From<ntp_proto::nts::%s> for u16>::from' % en)
        if len(P.adt('ntp_proto::nts::' + en)['variants']) == 1:
            dv = [v for _, v in ret_assigns(d)]
            ev = [v for _, v in ret_assigns(e)]
            ctx.check('%s|single-variant-identity' % en, len(dv) == 1 and re.match(r'^%s::Unknown\{0: (\w+)\}$' % en, dv[0]) is not None and len(ev) == 1
                      and re.match(r'^\(\w+ as Unknown\)\.0$', ev[0]) is not None, '%s conversions: %s / %s' % (en, dv, ev), sample=[dv, ev])
            ctx.check('%s|single-variant' % en, True, '', sample='only Unknown(u16)')
            continue
        dec, dflt = decode_table(d, r'^value$|^\w+$')
        enc = encode_table(e, r'^value$|^\w+$')
        ok = True
        for num, v in dec.items():
            var = re.match(r'^%s::(\w+)\{\}$' % en, v)
            if not var or enc.get(var.group(1)) != str(num):
                ok = False
        ctx.check('%s|inverse' % en, ok and len(dec) >= 1 and len(enc) == len(dec) + 1, '%s decode %s / encode %s' % (en, dec, enc), sample={'decode': {str(k): v for k, v in dec.items()}, 'encode': enc})
        ctx.check('%s|unknown-identity' % en, len(dflt) == 1 and re.match(r'^%s::Unknown\{0: \w+\}$' % en, dflt[0]) is not None and re.match(r'^\(\w+ as Unknown\)\.0$', enc.get('Unknown', '')) is not None,
                  '%s Unknown handling: %s / %s' % (en, dflt, enc.get('Unknown')), sample=[dflt, enc.get('Unknown')])


def r4(ctx):
    panic.property_rule(ctx, 'C30', 'C30-R4')


RULES = [r1, r2, r3, r4]
FLOORS = {'C30-R1': 20, 'C30-R2': 17, 'C30-R3': 8, 'C30-R4': 4}
