"""C45 — CSPTP servers answer only requests, with correct echoes."""
import re
from engine.rulelib import *
from engine.core import short_name
from engine.run import site_desc
from engine import panic

EXPLANATION = (
    "GUARD/FLOW/PANIC rules over statime-csptp's server: (R1) handle_packet holds the only send_event / send_general call sites of the "
    "server; send_event is dominated by CsptpMessage::deserialize(packet) Ok, is_request(message), new_response Ok and serialize Ok and "
    "sends exactly the serialised response to (local, remote); send_general is additionally dominated by send_event Ok, new_follow_up Ok "
    "and serialize Ok and sends the serialised follow-up; new_response is called with the parsed request, the reception timestamp "
    "parameter and send_timestamp None; new_follow_up with that response and the timestamp returned by send_event; serve passes the "
    "received prefix, addresses and timestamp of one recv result. (R2) construction: is_request = Sync body with a CsptpRequest TLV; "
    "new_response fails unless the request is a Sync with a valid request TLV, echoes domain and sequence id through csptp_header, puts "
    "recv_timestamp and the request's correction field into the response TLV, sets two_step_flag = send_timestamp.is_none() and the "
    "origin timestamp from send_timestamp; new_follow_up requires a two-step response, echoes its domain/sequence id and carries "
    "send_timestamp as precise origin timestamp. (R3) no unproven panic reachable from serve / handle_packet."
)
NOT_DECIDED = [
    "that the ServerSocket implementation's send_event returns the actual transmit timestamp is the socket's contract (statime_netptp, a declared leaf)",
    "what CsptpMessage::deserialize accepts as well-formed beyond the structure checked under C41 (TLV counting) is not re-decided here",
]
S_ = 'statime_csptp::server::'
M = 'statime_csptp::messages::'


def r1(ctx):
    ctx.rule('C45-R1', 'handle_packet gating: send_event only after deserialize Ok, is_request, new_response Ok, serialize Ok; send_general only after send_event Ok, new_follow_up Ok, '
             'serialize Ok; arguments are the serialised response / follow-up and (local, remote); reception time and send time flow as stated')
    P = ctx.P
    b = P.body(S_ + 'handle_packet::{closure#0}')
    for fn in ('send_event', 'send_general'):
        sites = [(x.npath, c) for x in P.bodies_matching(r'^<?statime_csptp::server') for c in x.calls(r'ServerSocket::%s$' % fn)]
        ctx.check('%s|one-site' % fn, len(sites) == 1 and sites[0][0] == b.npath, '%s call sites: %s' % (fn, [p for p, _ in sites]), sample=len(sites))
    parsed = fact_is(r'^CsptpMessage::deserialize\(packet\)$', ['Ok'])
    isreq = fact_call(r'CsptpMessage::is_request$', True, [r'^\(CsptpMessage::deserialize\(packet\) as Ok\)\.0$'])
    built = fact_is(r'^StateMutex::with_ref\(manager\.state, closure:server::handle_packet::\{closure#0\}::\{closure#0\}\)$', ['Ok'])
    ser1 = fact_is(r'^Message::serialize\(CsptpMessage::deref\(\(StateMutex::with_ref\(.*\) as Ok\)\.0\), ', ['Ok'])
    sent = fact_is(r'^\(Future::poll\(.*ServerSocket::send_event\(.*\) as Ready\)\.0$', ['Ok'])
    fu = fact_is(r'^CsptpMessage::new_follow_up\(', ['Ok'])
    ser2 = fact_is(r'^Message::serialize\(CsptpMessage::deref\(\(CsptpMessage::new_follow_up\(.*\) as Ok\)\.0\), ', ['Ok'])
    se = one(b.calls(r'ServerSocket::send_event$'), 'send_event')
    for nm, f in (('parsed', parsed), ('is-request', isreq), ('response-built', built), ('response-serialised', ser1)):
        ctx.guard(b, se, nm, f, key='send_event|' + nm)
    a = [S(x) for x in b.call_args(se)]
    ok = re.match(r'^array::index\(\[0; \d+\], Range\{start: 0, end: \(Message::serialize\(CsptpMessage::deref\(\(StateMutex::with_ref\(.*\) as Ok\)\.0\), \[0; \d+\]\) as Ok\)\.0\}\)$', a[1]) is not None
    ctx.check('send_event|payload-is-serialised-response', ok, 'send_event payload %s' % N(b.call_args(se)[1]), se.where(), sample=N(b.call_args(se)[1]))
    sb1 = N(b.call_args(se)[1])
    ser_calls = b.calls(r'Message::serialize$')
    ctx.check('serialize|two-sites', len(ser_calls) == 2, 'serialize sites %d' % len(ser_calls), sample=len(ser_calls))
    ctx.check('send_event|addresses', a[2:] == ['local', 'remote'], 'send_event addresses %s' % a[2:], se.where(), sample=a[2:])
    sg = one(b.calls(r'ServerSocket::send_general$'), 'send_general')
    for nm, f in (('parsed', parsed), ('is-request', isreq), ('response-built', built), ('response-serialised', ser1), ('event-sent', sent), ('follow-up-built', fu), ('follow-up-serialised', ser2)):
        ctx.guard(b, sg, nm, f, key='send_general|' + nm)
    g = [S(x) for x in b.call_args(sg)]
    ok = re.match(r'^array::index\(\[0; \d+\], Range\{start: 0, end: \(Message::serialize\(CsptpMessage::deref\(\(CsptpMessage::new_follow_up\(.*\) as Ok\)\.0\), \[0; \d+\]\) as Ok\)\.0\}\)$', g[1]) is not None
    ctx.check('send_general|payload-is-serialised-follow-up', ok, 'send_general payload %s' % N(b.call_args(sg)[1]), sg.where(), sample=N(b.call_args(sg)[1]))
    ctx.check('send_general|addresses', g[2:] == ['local', 'remote'], 'send_general addresses %s' % g[2:], sg.where(), sample=g[2:])
    # which buffer each send uses: the one its own serialize call wrote
    for send, idx in ((se, 0), (sg, 1)):
        if len(ser_calls) == 2:
            sc = sorted(ser_calls, key=lambda c: c.bb)[idx]
            l1 = root_local(b, sc.data['args'][1])
            l2 = root_local(b, send.data['args'][1])
            ctx.check('%s|buffer-written-by-own-serialize' % short_name(b.callee(send)['def']).split('::')[-1], l1 is not None and l1 == l2 and blocks_must_pass_block(b, send.bb, [sc.bb]),
                      'the datagram is sent from local #%s but its serialize call wrote local #%s' % (l2, l1), send.where(), sample={'serialize': l1, 'send': l2})
    nf = one(b.calls(r'CsptpMessage::new_follow_up$'), 'new_follow_up')
    fa = [S(x) for x in b.call_args(nf)]
    ctx.check('new_follow_up|response', re.match(r'^\(StateMutex::with_ref\(.*\) as Ok\)\.0$', fa[0]) is not None, 'follow-up built from %s' % N(b.call_args(nf)[0]), nf.where(), sample=N(b.call_args(nf)[0]))
    ctx.check('new_follow_up|send-time', re.match(r'^\(\(Future::poll\(.*ServerSocket::send_event\(.*\) as Ready\)\.0 as Ok\)\.0$', fa[1]) is not None,
              'follow-up timestamp %s' % fa[1][-120:], nf.where(), sample=fa[1][-60:])
    cl = P.body(S_ + 'handle_packet::{closure#0}::{closure#0}')
    nr = one(cl.calls(r'CsptpMessage::new_response$'), 'new_response')
    ra = [S(x) for x in cl.call_args(nr)]
    ctx.check('new_response|arguments', ra[1:4] == ['(CsptpMessage::deserialize(packet) as Ok).0', 'timestamp', 'Option::None{}'],
              'new_response(.., %s): expected the parsed request, the reception timestamp parameter and no send timestamp' % ra[1:4], nr.where(), sample=ra[1:4])
    sv = P.body(S_ + 'serve::{closure#0}')
    hp = one(sv.calls(r'server::handle_packet$'), 'handle_packet call in serve')
    ha = [S(x) for x in sv.call_args(hp)]
    mm = re.match(r'^array::index\(\[0; \d+\], Range\{start: 0, end: (?P<r>.*)\.bytes_read\}\)$', ha[2], re.S)
    rr = mm.group('r') if mm else None
    ok = rr is not None and re.search(r' as Some\)\.0 as Ok\)\.0$', rr) is not None and ha[3:] == [rr + '.remote_addr', rr + '.local_addr', rr + '.timestamp']
    ctx.check('serve|handle_packet-arguments', ok, 'handle_packet is not given the received prefix, remote address, local address and timestamp of one recv result: %s' % [x[-60:] for x in ha[2:]],
              hp.where(), sample=[x[-40:] for x in ha[2:]])


def hdr_fields(b, s):
    return dict(zip(s.data['rv']['fields'], [S(b.operand_term(o)) for o in s.data['rv']['ops']]))


def r2(ctx):
    ctx.rule('C45-R2', 'construction: is_request = Sync && any(tlv_type == CsptpRequest); new_response/new_follow_up echo domain and sequence id through csptp_header, carry '
             'recv_timestamp + request correction field (response TLV), two_step_flag = send_timestamp.is_none(), follow-up precise origin = send_timestamp')
    P = ctx.P
    q = P.body(M + 'CsptpMessage::is_request')
    rets = sorted(v for _, v in ret_assigns(q))
    ctx.check('is_request|shape', rets == ['0', 'Iterator::any(TlvSet::tlvs(self.message.suffix), closure:messages::{impl#0}::is_request::{closure#0})'], 'is_request returns %s' % rets, sample=rets)
    for s, v in ret_assigns(q):
        if v != '0':
            ctx.guard(q, s, 'sync', fact_is(r'^self\.message\.body$', ['Sync']), key='is_request|true-only-for-Sync')
    cr = [v for x in P.closures_of(q) for _, v in ret_assigns(x)]
    ctx.check('is_request|tlv-test', cr == ['(tlv.tlv_type == TlvType::CsptpRequest{})'], 'TLV test %s' % cr, sample=cr)
    h = P.body(M + 'csptp_header')
    hs = h.aggregates(r'::Header$')
    ctx.check('csptp_header|one-literal', len(hs) == 1, 'Header literals %d' % len(hs), sample=len(hs))
    for s in hs:
        f = hdr_fields(h, s)
        ctx.check('csptp_header|domain', f.get('domain_number') == 'domain_number', 'domain_number = %s' % f.get('domain_number'), s.where(), sample=f.get('domain_number'))
        ctx.check('csptp_header|sequence', f.get('sequence_id') == 'sequence_id', 'sequence_id = %s' % f.get('sequence_id'), s.where(), sample=f.get('sequence_id'))
    params = [l.get('name') for l in h.locals[1:3]]
    ctx.check('csptp_header|param-order', params == ['domain_number', 'sequence_id'], 'parameters %s' % params, sample=params)
    m = P.body(M + 'CsptpMessage::new_response')
    oks = [(s, v) for s, v in ret_assigns(m) if v.startswith('Result::Ok')]
    ctx.check('new_response|ok-sites', len(oks) == 1, 'Ok sites %d' % len(oks), sample=len(oks))
    for s, v in oks:
        ctx.guard(m, s, 'sync', fact_is(r'^request\.message\.body$', ['Sync']), key='new_response|Ok|request-is-Sync')
        ctx.guard(m, s, 'request-tlv', fact_is(r'^Iterator::find_map\(TlvSet::tlvs\(request\.message\.suffix\), closure:', ['Some']), key='new_response|Ok|has-valid-request-tlv')
        ctx.guard(m, s, 'tlv-added', fact_is(r'^Result::branch\(CsptpResponseTlv::add_to\(', 'Continue'), key='new_response|Ok|response-tlv-added')
    fm = [v for x in P.closures_of(m) for _, v in ret_assigns(x)]
    ctx.check('new_response|request-tlv-parser', fm == ['CsptpRequestTlv::try_from(tlv)'] or fm == ['TryFrom::try_from(tlv)'] or (len(fm) == 1 and 'CsptpRequestTlv' in fm[0]), 'find_map closure returns %s' % fm, sample=fm)
    ech = 'messages::csptp_header(CsptpMessage::deref(request).header.domain_number, CsptpMessage::deref(request).header.sequence_id)'
    for s in m.aggregates(r'::Header$'):
        f = hdr_fields(m, s)
        ctx.check('new_response|header|domain-echo', f.get('domain_number') == ech + '.domain_number', 'domain_number = %s' % f.get('domain_number'), s.where(), sample=f.get('domain_number', '')[-60:])
        ctx.check('new_response|header|sequence-echo', f.get('sequence_id') == ech + '.sequence_id', 'sequence_id = %s' % f.get('sequence_id'), s.where(), sample=f.get('sequence_id', '')[-60:])
        ctx.check('new_response|header|two-step', f.get('two_step_flag') == 'Option::is_none(send_timestamp)', 'two_step_flag = %s' % f.get('two_step_flag'), s.where(), sample=f.get('two_step_flag'))
    tl = m.aggregates(r'CsptpResponseTlv$')
    ctx.check('new_response|response-tlv|one', len(tl) == 1, 'response TLV literals %d' % len(tl), sample=len(tl))
    for s in tl:
        f = hdr_fields(m, s)
        ctx.check('new_response|response-tlv|ingress', f.get('req_ingress_timestamp') == 'recv_timestamp', 'req_ingress_timestamp = %s' % f.get('req_ingress_timestamp'), s.where(), sample=f.get('req_ingress_timestamp'))
        ctx.check('new_response|response-tlv|correction', f.get('req_correction_field') == 'CsptpMessage::deref(request).header.correction_field', 'req_correction_field = %s' % f.get('req_correction_field'), s.where(), sample=f.get('req_correction_field'))
    for s in m.aggregates(r'SyncMessage$'):
        f = hdr_fields(m, s)
        ctx.check('new_response|origin', f.get('origin_timestamp') == 'Option::unwrap_or_default(send_timestamp)', 'origin_timestamp = %s' % f.get('origin_timestamp'), s.where(), sample=f.get('origin_timestamp'))
    params = [l.get('name') for l in m.locals[1:5]]
    ctx.check('new_response|param-order', params == ['buffer', 'request', 'recv_timestamp', 'send_timestamp'], 'parameters %s' % params, sample=params)
    fu = P.body(M + 'CsptpMessage::new_follow_up')
    oks = [(s, v) for s, v in ret_assigns(fu) if v.startswith('Result::Ok')]
    ctx.check('new_follow_up|ok-sites', len(oks) == 1, 'Ok sites %d' % len(oks), sample=len(oks))
    for s, v in oks:
        ctx.guard(fu, s, 'is-response', fact_call(r'CsptpMessage::is_response$', True, [r'^response$']), key='new_follow_up|Ok|is-response')
        ctx.guard(fu, s, 'two-step', fact_str(r'^response\.message\.header\.two_step_flag$'), key='new_follow_up|Ok|response-two-step')
    ech = 'messages::csptp_header(response.message.header.domain_number, response.message.header.sequence_id)'
    for s in fu.aggregates(r'::Header$'):
        f = hdr_fields(fu, s)
        ctx.check('new_follow_up|header|domain-echo', f.get('domain_number') == ech + '.domain_number', 'domain_number = %s' % f.get('domain_number'), s.where(), sample=f.get('domain_number', '')[-60:])
        ctx.check('new_follow_up|header|sequence-echo', f.get('sequence_id') == ech + '.sequence_id', 'sequence_id = %s' % f.get('sequence_id'), s.where(), sample=f.get('sequence_id', '')[-60:])
    for s in fu.aggregates(r'FollowUpMessage$'):
        f = hdr_fields(fu, s)
        ctx.check('new_follow_up|precise-origin', f.get('precise_origin_timestamp') == 'send_timestamp', 'precise_origin_timestamp = %s' % f.get('precise_origin_timestamp'), s.where(), sample=f.get('precise_origin_timestamp'))
    params = [l.get('name') for l in fu.locals[1:3]]
    ctx.check('new_follow_up|param-order', params == ['response', 'send_timestamp'], 'parameters %s' % params, sample=params)


def r3(ctx):
    panic.property_rule(ctx, 'C45', 'C45-R3')


def wellformed_gate(ctx):
    """CsptpMessage::deserialize is the 'well-formed CSPTP message' gate used by both the server and the client."""
    P = ctx.P
    b = P.body(M + 'CsptpMessage::deserialize')
    MSGV = r'\(Result::branch\(Message::deserialize\(buffer\)\) as Continue\)\.0'
    oks = [(s, v) for s, v in ret_assigns(b) if v.startswith('Result::Ok')]
    ctx.check('deserialize|ok-sites', len(oks) == 1 and re.match(r'^Result::Ok\{0: CsptpMessage\{message: %s\}\}$' % MSGV, oks[0][1]) is not None, 'Ok results %s' % [v[:100] for _, v in oks], sample=len(oks))
    cnt = lambda k: r'Filter::count\(Iterator::filter\(TlvSet::tlvs\(%s\.suffix\), closure:messages::\{impl#0\}::deserialize::\{closure#%d\}\)\)' % (MSGV, k)
    val = lambda k: r'Iterator::count\(Iterator::filter_map\(TlvSet::tlvs\(%s\.suffix\), closure:messages::\{impl#0\}::deserialize::\{closure#%d\}\)\)' % (MSGV, k)
    follow = fact_is('^' + MSGV + r'\.body$', ['FollowUp'])
    for s, v in oks:
        ctx.guard(b, s, 'parsed', fact_is(r'^Result::branch\(Message::deserialize\(buffer\)\)$', 'Continue'), key='deserialize|Ok|ptp-message-parsed')
        ctx.guard(b, s, 'sdo-id', fact_cmp('Eq', '^' + MSGV + r'\.header\.sdo_id$', r'^Result::unwrap\(SdoId::try_from\(768\)\)$'), key='deserialize|Ok|sdo-id-0x300')
        ctx.guard(b, s, 'major', fact_cmp('Eq', r'^PtpVersion::major\(%s\.header\.version\)$' % MSGV, r'^2$'), key='deserialize|Ok|version-major-2')
        ctx.guard(b, s, 'kind', fact_is('^' + MSGV + r'\.body$', ['Sync', 'FollowUp']), key='deserialize|Ok|sync-or-follow-up')
        ctx.guard(b, s, 'one-tlv', any_of(follow, fact_cmp('Eq', r'^\(%s \+ %s\)$' % (cnt(0), cnt(2)), r'^1$')), key='deserialize|Ok|sync-has-exactly-one-request-or-response-tlv')
        ctx.guard(b, s, 'request-valid', any_of(follow, fact_cmp('Eq', '^' + cnt(0) + '$', '^' + val(1) + '$')), key='deserialize|Ok|request-tlvs-valid')
        ctx.guard(b, s, 'response-valid', any_of(follow, fact_cmp('Eq', '^' + cnt(2) + '$', '^' + val(3) + '$')), key='deserialize|Ok|response-tlvs-valid')
    tests = {}
    for i, x in enumerate(P.closures_of(b)):
        tests[i] = [v for _, v in ret_assigns(x)]
    want = {0: ['(tlv.tlv_type == TlvType::CsptpRequest{})'], 2: ['(tlv.tlv_type == TlvType::CsptpResponse{})']}
    for k, w in want.items():
        ctx.check('deserialize|closure#%d' % k, tests.get(k) == w, 'TLV selector #%d is %s' % (k, tests.get(k)), sample=tests.get(k))
    for k, ty in ((1, 'CsptpRequestTlv'), (3, 'CsptpResponseTlv')):
        ok = len(tests.get(k, [])) == 1 and ty in tests[k][0]
        ctx.check('deserialize|closure#%d' % k, ok, 'TLV validator #%d is %s' % (k, tests.get(k)), sample=tests.get(k))
    mk = [x.npath for x in P.bodies.values() if x.raw['promoted'] is None and x.krate == 'statime_csptp' and x.aggregates(r'messages::CsptpMessage$')]
    allowed = {M + 'CsptpMessage::deserialize', M + 'CsptpMessage::new_request', M + 'CsptpMessage::new_response', M + 'CsptpMessage::new_follow_up'}
    ctx.check('CsptpMessage|constructors', set(mk) <= allowed, 'CsptpMessage built in %s' % sorted(set(mk) - allowed), sample=len(mk))


def r4(ctx):
    ctx.rule('C45-R4', 'well-formedness gate: CsptpMessage::deserialize returns Ok only for a parsed PTP message with sdoId 0x300 and major version 2 whose body is a FollowUp, or a '
             'Sync carrying exactly one request-or-response TLV, all of them valid; CsptpMessage values come only from deserialize and the three builders')
    wellformed_gate(ctx)


RULES = [r1, r2, r3, r4]
FLOORS = {'C45-R1': 23, 'C45-R2': 25, 'C45-R4': 13}
