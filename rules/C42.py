"""C42 — the multi-clock estimator keeps unrelated estimates intact (structural part)."""
import re
from engine.rulelib import *
from engine.core import short_name
from engine.run import site_desc

EXPLANATION = (
    "FLOW/GUARD/TABLE rules over statime-algo: (R1) every write of KalmanControllerState.filter stores the success payload of a filter "
    "operation applied to a clone of the current filter (clone-then-replace), the add/remove/create operations perform no state write "
    "on any path that ends in an error return, and the steered-clock list is only changed after the filter operation succeeded; "
    "(R2) EstimatorState::progress_time returns NonMonotonicTimeProgression when delta_t < 0 and writes time/state/uncertainty only "
    "past delta_t >= 0; (R3) index bookkeeping: list add is guarded by the duplicate test and list remove by a successful position "
    "lookup, duplicates across the internal/external clock lists are rejected before any change, new entries get index state.rows(), the "
    "number of appended/removed rows equals ClockInfo::SIZE / LinkInfo::SIZE for both the state vector and the covariance with the same "
    "start index, both update_indices shift exactly the indices greater than the removed one by the removed size, and removal updates "
    "both lists with the same (index, size); (R4) the index maps of splice_vec / splice_square / extend_vec / extend copy every remaining "
    "entry from its old position (shifted by the removed length past the removed range) and place new values only in the appended block."
)
NOT_DECIDED = [
    "Matrix::new / new_vec (that the closure is evaluated once per cell of the stated size) and the storage back ends are not decided; R4 decides the index maps handed to them",
    "the numeric effect of measurements and time progression on other clocks (covariance coupling is intended) is not decided",
    "LinkFilter-level bookkeeping of per-link noise estimators is not decided",
]
A = 'statime_algo::'
E = A + 'estimator::'
OPS = ('add_external_clock', 'remove_external_clock', 'add_clock', 'remove_clock', 'create_tracked_link', 'create_untracked_link')
SUCC = r'^\((Result::branch\()?LinkFilter::(\w+)\(LinkFilter::clone\((state|self)\.filter\)[,)].* as (Continue|Ok)\)\.0(\.0)?$'


def alts(v):
    """Alternatives of a (possibly nested) phi string `name{a | b}`; a plain value is its own alternative."""
    m = re.match(r'^\w*\{(.*)\}$', v)
    if not m:
        return [v]
    out, depth, cur = [], 0, ''
    s = m.group(1)
    i = 0
    while i < len(s):
        ch = s[i]
        if ch in '({[':
            depth += 1
        elif ch in ')}]':
            depth -= 1
        if depth == 0 and s.startswith(' | ', i):
            out.append(cur); cur = ''; i += 3
            continue
        cur += ch
        i += 1
    out.append(cur)
    return out


def r1(ctx):
    ctx.rule('C42-R1', 'clone-then-replace: every write of KalmanControllerState.filter is the Continue/Ok payload of a LinkFilter operation on clone(state.filter) '
             '(steer_clocks: a chain of such operations starting from one); add/remove/create closures write no state on a path to an error return; '
             'clocks.push/remove only after the filter operation succeeded')
    P = ctx.P
    ws = P.field_writers('filter', r'KalmanControllerState')
    ctx.check('filter-writes|count', len(ws) >= 11, 'writes of KalmanControllerState.filter found: %d' % len(ws), sample=len(ws))
    seen = {}
    for b, s in ws:
        v = written_value(b, s) or ''
        fn = re.sub(r'^statime_algo::|<statime_algo::| as core::ops::drop::Drop>', '', b.npath)
        n = seen[fn] = seen.get(fn, 0) + 1
        key = '%s|filter-write#%d' % (fn, n)
        if b.npath == A + 'steer_clocks':
            # local `filter`: starts as progress_time(clone(self.filter)) and is only ever replaced by the success payload of an op on itself
            parts = alts(v)
            lab = re.match(r'^(\w+)\{', v)
            lab = re.escape(lab.group(1)) if lab else r'\w+'
            ok = all(re.match(SUCC, p) or re.match(r'^\(Result::branch\(LinkFilter::absorb_\w+\(%s, .* as Continue\)\.0$' % lab, p) for p in parts) and any(re.match(SUCC, p) for p in parts)
            ctx.check(key + '|clone-then-replace', ok, 'steer_clocks stores %s' % [p[:80] for p in parts], s.where(), sample=len(parts))
            continue
        ok = re.match(SUCC, v) is not None
        ctx.check(key + '|clone-then-replace', ok, 'filter is overwritten with %s' % v[:160], s.where(), sample=v[:80])
    for op in OPS:
        b = P.body(A + 'KalmanController::%s::{closure#0}' % op)
        writes = [s for s in b.field_writes('filter', r'KalmanControllerState')] + list(b.calls(r'SteeredClockStorage::(push|remove|clear|pop|insert)$'))
        errs = [(s, v) for s, v in ret_assigns(b) if not v.startswith('Result::Ok')]
        ctx.check('%s|has-error-exit' % op, len(errs) >= 1, 'error returns: %d' % len(errs), sample=len(errs))
        for w in writes:
            bad = [v for s, v in errs if b.can_reach(w.bb, s.bb)]
            ctx.check('%s|%s|no-error-after-write' % (op, site_desc(b, w)), not bad, 'state is modified and the operation can still fail with %s' % [x[:80] for x in bad], w.where(), sample=len(bad))
        for c in b.calls(r'SteeredClockStorage::(push|remove)$'):
            ctx.guard(b, c, 'filter-op-ok', fact_is(r'^Result::branch\(LinkFilter::\w+\(LinkFilter::clone\(state\.filter\)', 'Continue'), key='%s|%s|after-filter-success' % (op, site_desc(b, c)))


def r2(ctx):
    ctx.rule('C42-R2', 'EstimatorState::progress_time: Err(NonMonotonicTimeProgression) exactly under delta_t < ZERO with delta_t = new_time - self.time; '
             'time/state/uncertainty are written only past delta_t >= ZERO; time is set to new_time')
    P = ctx.P
    b = P.body(E + 'EstimatorState::progress_time')
    ge = fact_cmp('Ge', r'^Timestamp::sub\(new_time, self\.time\)$', r'^ZERO=statime_base::time_types::Duration::ZERO$')
    lt = fact_cmp('Lt', r'^Timestamp::sub\(new_time, self\.time\)$', r'^ZERO=statime_base::time_types::Duration::ZERO$')
    errs = [(s, v) for s, v in ret_assigns(b) if v.startswith('Result::Err')]
    ctx.check('progress_time|err-site', len(errs) == 1 and errs[0][1].startswith('Result::Err{0: AlgoError::NonMonotonicTimeProgression{'), 'error returns %s' % [v[:80] for _, v in errs], sample=len(errs))
    for s, v in errs:
        ctx.guard(b, s, 'backwards', lt, key='progress_time|Err|under-negative-delta')
    for s, v in ret_assigns(b):
        if v.startswith('Result::Ok'):
            ctx.guard(b, s, 'forwards', ge, key='progress_time|Ok#%s|non-negative-delta' % ('same-time' if b.must_pass(s.bb, fact_cmp('Eq', r'^new_time$', r'^self\.time$')) else 'advanced'))
    n = 0
    for f in ('time', 'state', 'uncertainty'):
        for s in b.field_writes(f, r'EstimatorState'):
            n += 1
            ctx.guard(b, s, 'forwards', ge, key='progress_time|write:%s|non-negative-delta' % f)
            if f == 'time':
                ctx.check('progress_time|write:time|value', written_value(b, s) == 'new_time', 'time set to %s' % written_value(b, s), s.where(), sample=written_value(b, s))
    ctx.check('progress_time|writes', n == 3, 'state writes found: %d' % n, sample=n)
    others = [(x.npath, written_value(x, s)) for x, s in P.field_writers('time', r'estimator::EstimatorState') if x.id != b.id]
    ok = all(re.search(r'absorb_system_clock_offset_change$', p) for p, _ in others)
    ctx.check('time|other-writers', ok, 'EstimatorState.time also written by %s' % others, sample=[p.split('::')[-1] for p, _ in others])


def r3(ctx):
    ctx.rule('C42-R3', 'index bookkeeping: add guarded by the duplicate test, remove by position Some; cross-list duplicate tests precede any change; new index = state.rows(); '
             'rows appended/removed == SIZE for state and covariance with the same start; update_indices shifts indices > from by delta in both lists; '
             'remove updates both lists with the same (index, SIZE)')
    P = ctx.P
    size = {'ClockInfo': int(P.const_val(E + 'ClockInfo::SIZE')), 'LinkInfo': int(P.const_val(E + 'LinkInfo::SIZE'))}
    ctx.check('SIZE', size == {'ClockInfo': 2, 'LinkInfo': 1}, 'SIZE constants %s' % size, sample=size)
    for lst, dup in (('ClockInfoList', r'^Iter::any\(slice::iter\(Deref::deref\(self\.0\)\), closure:'), ('LinkInfoList', r'^Iter::any\(slice::iter\(Deref::deref\(self\.0\)\), closure:'),
                     ('ExternalClockList', r'^ExternalClockList::contains\(self, id\)$')):
        b = P.body(E + lst + '::add')
        c = one(b.calls(r'Storage::push$'), lst + '::add push')
        ctx.guard(b, c, 'not-duplicate', lambda f, dup=dup: f.kind == 'bool' and not f.pol and re.search(dup, S(f.term)) is not None, key='%s::add|push|not-duplicate' % lst)
        if lst != 'ExternalClockList':
            cl = P.closures_of(b)
            rets = [v for x in cl for _, v in ret_assigns(x)]
            ctx.check('%s::add|duplicate-test' % lst, rets == ['(existing.id == info.id)'], 'duplicate test closure returns %s' % rets, sample=rets)
        errs = [v for _, v in ret_assigns(b) if v.startswith('Result::Err')]
        ctx.check('%s::add|Err' % lst, len(errs) == 1 and re.search(r'AlreadyExists', errs[0]) is not None, 'error returns %s' % errs, sample=errs)
        b = P.body(E + lst + '::remove')
        c = one(b.calls(r'Storage::remove$'), lst + '::remove remove')
        ctx.guard(b, c, 'found', fact_is(r'^Iter::position\(slice::iter\(Deref::deref\(self\.0\)\), closure:', ['Some']), key='%s::remove|remove|position-found' % lst)
        arg = S(b.call_args(c)[1])
        ctx.check('%s::remove|remove|at-position' % lst, re.match(r'^\(Iter::position\(slice::iter\(Deref::deref\(self\.0\)\), closure:.*\) as Some\)\.0$', arg) is not None, 'removes index %s' % arg, c.where(), sample=arg[:60])
        rets = [v for x in P.closures_of(b) for _, v in ret_assigns(x)]
        want = '(info.id == id)' if lst != 'ExternalClockList' else None
        if want:
            ctx.check('%s::remove|match-test' % lst, rets == [want], 'position closure returns %s' % rets, sample=rets)
        if lst != 'ExternalClockList':
            ui = b.calls(r'::update_indices$')
            args = [[S(a) for a in b.call_args(u)] for u in ui]
            fld = 'base_index' if lst == 'ClockInfoList' else 'index'
            sz = size['ClockInfo' if lst == 'ClockInfoList' else 'LinkInfo']
            ok = len(args) == 2 and {short_name(b.callee(u)['def']) for u in ui} == {'ClockInfoList::update_indices', 'LinkInfoList::update_indices'} and \
                all(re.search(r'( as Continue\)\.0|Storage::remove\(self\.0, \(Iter::position\(.*\) as Some\)\.0\))\.%s$' % fld, a[1]) and a[2] == 'SIZE=%d' % sz for a in args) and args[0][1:] == args[1][1:]
            ctx.check('%s::remove|update-both-lists' % lst, ok, 'update_indices calls %s' % [[x[-40:] for x in a] for a in args], sample=len(args))
            # either spelling of "the element was found and removed": `if let Some(pos) .. Ok(remove(pos)) else Err ..?` or `let Some(pos) = .. else { return Err }`
            removed = any_of(fact_is(r'^Result::branch\(\{Result::Err\{0: AlgoError::Unknown\w+\{0: id\}\} \| Result::Ok\{0: \w+::remove\(self\.0, \(Iter::position\(.*\) as Some\)\.0\)\}\}\)$', 'Continue'),
                             fact_is(r'^Iter::position\(slice::iter\(Deref::deref\(self\.0\)\), closure:', ['Some']))
            for u in ui:
                ctx.guard(b, u, 'removed', removed, key='%s::remove|%s|after-removal' % (lst, short_name(b.callee(u)['def'])))
                ctx.check('%s::remove|%s|after-remove-call' % (lst, short_name(b.callee(u)['def'])), b.can_reach(c.bb, u.bb) and not b.can_reach(u.bb, c.bb), 'indices are shifted before the element is removed', u.where(), sample=True)
    for lst, fld in (('ClockInfoList', 'base_index'), ('LinkInfoList', 'index')):
        b = P.body(E + lst + '::update_indices')
        dw = [(s, t, v) for s, t, v in deref_writes(b)]
        ctx.check('%s::update_indices|one-write' % lst, len(dw) == 1, 'writes: %d' % len(dw), sample=len(dw))
        for s, t, v in dw:
            ok = t.endswith('.' + fld) and re.match(r'^\(%s - delta\)$' % re.escape(t), v) is not None
            ctx.check('%s::update_indices|subtract-delta' % lst, ok, 'writes %s = %s' % (t[-30:], v[-60:]), s.where(), sample=v[-40:])
            ctx.guard(b, s, 'greater', fact_cmp('Gt', r'^\(IterMut::next\(.*\) as Some\)\.0\.%s$' % fld, r'^from$'), key='%s::update_indices|only-greater' % lst)
    ES = E + 'EstimatorState::'
    # add ops
    for op, lst, info, cross in (('add_clock', 'ClockInfoList', 'ClockInfo', r'^ExternalClockList::contains\(self\.external_clocks, id\)$'), ('add_link', 'LinkInfoList', 'LinkInfo', None)):
        b = P.body(ES + op)
        c = one(b.calls(r'%s::add$' % lst), op + ' list add')
        arg = S(b.call_args(c)[1])
        idx = 'base_index' if info == 'ClockInfo' else 'index'
        ctx.check('%s|new-index' % op, re.search(r'\b%s: Matrix::rows\(self\.state\)[,}]' % idx, arg) is not None, 'new entry %s' % arg[:120], c.where(), sample=arg[:100])
        if cross:
            ctx.guard(b, c, 'not-in-other-list', lambda f, cross=cross: f.kind == 'bool' and not f.pol and re.search(cross, S(f.term)) is not None, key='%s|list-add|not-external' % op)
        else:
            for end in ('first_clock', 'second_clock'):
                ctx.guard(b, c, 'known-' + end, fact_call(r'EstimatorState::is_known_clock$', True, [r'^self$', r'^LinkId::%s\(id\)$' % end]), key='%s|list-add|known-%s' % (op, end))
        added = fact_is(r'^Result::branch\(%s::add\(self\.\w+, ' % lst, 'Continue')
        ws = [(f, s) for f in ('state', 'uncertainty') for s in b.field_writes(f, r'EstimatorState')]
        ctx.check('%s|writes' % op, len(ws) == 2, 'state writes: %d' % len(ws), sample=len(ws))
        for f, s in ws:
            ctx.guard(b, s, 'after-list-add', added, key='%s|write:%s|after-list-add' % (op, f))
            v = written_value(b, s)
            if f == 'state':
                m = re.match(r'^\(Result::branch\(Matrix::extend_vec\(self\.state, \[(.*)\]\)\) as Continue\)\.0$', v)
                n = len(m.group(1).split(', ')) if m else None
            else:
                m = re.match(r'^Matrix::extend\(self\.uncertainty, \[(\[.*\])\]\)$', v)
                n = len(re.findall(r'\[', m.group(1))) if m else None
            ctx.check('%s|write:%s|rows==SIZE' % (op, f), n == size[info], '%s grows by %s rows, %s::SIZE is %d: %s' % (f, n, info, size[info], v[:120]), s.where(), sample=n)
    b = P.body(ES + 'add_external_clock')
    c = one(b.calls(r'ExternalClockList::add$'), 'add_external_clock list add')
    ctx.guard(b, c, 'not-internal', fact_call(r'ClockInfoList::contains$', False, [r'^self\.clock_info$', r'^id$']), key='add_external_clock|list-add|not-internal')
    # remove ops
    for op, lst, info, fld in (('remove_clock', 'ClockInfoList', 'ClockInfo', 'base_index'), ('remove_link', 'LinkInfoList', 'LinkInfo', 'index')):
        b = P.body(ES + op)
        removed = fact_is(r'^Result::branch\(%s::remove\(self\.\w+, id, self\.\w+\)\)$' % lst, 'Continue')
        ws = [(f, s) for f in ('state', 'uncertainty') for s in b.field_writes(f, r'EstimatorState')]
        ctx.check('%s|writes' % op, len(ws) == 2, 'state writes: %d' % len(ws), sample=len(ws))
        for f, s in ws:
            ctx.guard(b, s, 'after-list-remove', removed, key='%s|write:%s|after-list-remove' % (op, f))
            v = written_value(b, s)
            fn = 'splice_vec' if f == 'state' else 'splice_square'
            pat = r'^\(Result::branch\(Matrix::%s\(self\.%s, \(Result::branch\(%s::remove\(self\.\w+, id, self\.\w+\)\) as Continue\)\.0\.%s, SIZE=%d\)\) as Continue\)\.0$' % (fn, f, lst, fld, size[info])
            ctx.check('%s|write:%s|splice-args' % (op, f), re.match(pat, v) is not None, '%s = %s' % (f, v[:200]), s.where(), sample=v[-60:])
        errs = [v for _, v in ret_assigns(b) if not v.startswith('Result::Ok')]
        first = [v for v in errs if re.search(r'%s::remove\(self\.\w+, id, self\.\w+\)\) as Break' % lst, v)]
        ctx.check('%s|unknown-id-fails-first' % op, len(first) == 1 and not b.guard_strings(one(b.calls(r'%s::remove$' % lst), 'remove call').bb), 'list removal is not the first fallible step', sample=len(first))
    # query siblings read the index they are named after
    for q, idx in (('clock_offset', 'offset_index'), ('clock_frequency', 'frequency_index')):
        b = P.body(ES + q)
        used = {short_name(b.callee(c)['def']) for c in b.calls(r'ClockInfo::\w+_index$')}
        ctx.check('%s|index' % q, used == {'ClockInfo::' + idx}, '%s reads %s' % (q, sorted(used)), sample=sorted(used))
    for fn, want in (('offset_index', 'self.base_index'), ('frequency_index', '(self.base_index + 1)')):
        rets = [v for _, v in ret_assigns(P.body(E + 'ClockInfo::' + fn))]
        ctx.check('ClockInfo::%s' % fn, rets == [want], 'returns %s' % rets, sample=rets)


def closure_cases(cl):
    """[(returned value string, sorted guard strings)] of an index-map closure."""
    return sorted((v, tuple(sorted(guards_S(cl, s.bb)))) for s, v in ret_assigns(cl))


def r4(ctx):
    ctx.rule('C42-R4', 'index maps of the resize operations keep every other entry: splice_vec(start, length) maps new row r to old row r (r < start) or r + length (r >= start); '
             'splice_square applies that map to rows and columns with the same start/length; extend_vec / extend copy old entries at unchanged indices, put the new values at '
             '(r - old_rows[, c - old_cols]) and zeros in the off-diagonal blocks; result sizes are old -/+ length')
    P = ctx.P
    MX = A + 'matrix::Matrix::'
    # splice_vec
    b = P.body(MX + 'splice_vec')
    oks = [(s, v) for s, v in ret_assigns(b) if v.startswith('Result::Ok')]
    ctx.check('splice_vec|Ok', len(oks) == 1 and oks[0][1] == 'Result::Ok{0: Matrix::new_vec((Matrix::rows(self) - length), closure:matrix::{impl#1}::splice_vec::{closure#0})}', 'returns %s' % [v for _, v in oks], sample=len(oks))
    for s, v in oks:
        ctx.guard(b, s, 'in-range', fact_cmp('Le', r'^\(start \+ length\)$', r'^self\.rows$'), key='splice_vec|Ok|start+length<=rows')
        ctx.guard(b, s, 'vector', fact_cmp('Eq', r'^self\.cols$', r'^1$'), key='splice_vec|Ok|is-vector')
    cs = closure_cases(one(P.closures_of(b), 'splice_vec closure'))
    want = sorted([('Matrix::index(self, (row, 0))', ('(row < start)',)), ('Matrix::index(self, ((row + length), 0))', ('(row >= start)',))])
    ctx.check('splice_vec|index-map', cs == want, 'index map %s' % cs, sample=[c[0] for c in cs])
    # splice_square
    b = P.body(MX + 'splice_square')
    oks = [(s, v) for s, v in ret_assigns(b) if v.startswith('Result::Ok')]
    ctx.check('splice_square|Ok', len(oks) == 1 and oks[0][1] == 'Result::Ok{0: Matrix::new((self.rows - length), (self.cols - length), closure:matrix::{impl#1}::splice_square::{closure#0})}', 'returns %s' % [v for _, v in oks], sample=len(oks))
    for s, v in oks:
        ctx.guard(b, s, 'in-range', fact_cmp('Le', r'^\(start \+ length\)$', r'^self\.rows$'), key='splice_square|Ok|start+length<=rows')
        ctx.guard(b, s, 'square', fact_cmp('Eq', r'^self\.rows$', r'^self\.cols$'), key='splice_square|Ok|is-square')
    cl = one(P.closures_of(b), 'splice_square closure')
    rets = [v for _, v in ret_assigns(cl)]
    ctx.check('splice_square|reads', len(rets) == 1 and re.match(r'^Matrix::index\(self, \(\w+\{\(row \+ length\) \| row\}, \w+\{\(col \+ length\) \| col\}\)\)$', rets[0]) is not None, 'reads %s' % rets, sample=rets)
    shadows = [i for i, l in enumerate(cl.locals) if i > cl.arg_count and l.get('user') and len(cl.defs().get(i) or []) == 2]
    ctx.check('splice_square|two-shifted-indices', len(shadows) == 2, 'shifted index variables found: %d' % len(shadows), sample=len(shadows))
    for nm, idx in zip(('row', 'col'), [[i] for i in shadows]):
        got = sorted((S(cl._def_term(d, ())), tuple(guards_S(cl, d[0]))) for i in idx for d in cl.defs()[i])
        want = sorted([(nm, ('(%s < start)' % nm,)), ('(%s + length)' % nm, ('(%s >= start)' % nm,))])
        ctx.check('splice_square|%s-map' % nm, got == want, '%s map %s' % (nm, got), sample=[g[0] for g in got])
    # extend_vec
    b = P.body(MX + 'extend_vec')
    oks = [(s, v) for s, v in ret_assigns(b) if v.startswith('Result::Ok')]
    ctx.check('extend_vec|Ok', len(oks) == 1 and oks[0][1] == 'Result::Ok{0: Matrix::new_vec((Matrix::rows(self) + ROWS), closure:matrix::{impl#1}::extend_vec::{closure#0})}', 'returns %s' % [v for _, v in oks], sample=len(oks))
    cs = closure_cases(one(P.closures_of(b), 'extend_vec closure'))
    want = sorted([('Matrix::index(self, (row, 0))', ('(row < Matrix::rows(self))',)), ('values[(row - Matrix::rows(self))]', ('(row >= Matrix::rows(self))',))])
    ctx.check('extend_vec|index-map', cs == want, 'index map %s' % cs, sample=[c[0] for c in cs])
    # extend
    b = P.body(MX + 'extend')
    rets = [v for _, v in ret_assigns(b)]
    ctx.check('extend|result', rets == ['Matrix::new((Matrix::rows(self) + ROWS), (Matrix::cols(self) + COLS), closure:matrix::{impl#1}::extend::{closure#0})'], 'returns %s' % rets, sample=rets)
    cl = one(P.closures_of(b), 'extend closure')
    cs = closure_cases(cl)
    want = sorted([('Matrix::index(self, (row, col))', ('(col < Matrix::cols(self))', '(row < Matrix::rows(self))')),
                   ('data[(row - Matrix::rows(self))][(col - Matrix::cols(self))]', ('(col >= Matrix::cols(self))', '(row >= Matrix::rows(self))')), ('0.0', ())])
    ctx.check('extend|index-map', cs == want, 'index map %s' % cs, sample=[c[0] for c in cs])
    # Index / IndexMut address the same storage cell for (row, col)
    ix = [x for x in P.bodies.values() if x.raw['promoted'] is None and re.search(r'statime_algo::matrix::Matrix<.*> as core::ops::(index::)?Index(Mut)?<\(usize, usize\)>>::index(_mut)?$', x.path)]
    forms = sorted({re.sub(r'index_mut', 'index', re.sub(r'IndexMut', 'Index', v)) for x in ix for _, v in ret_assigns(x)})
    ctx.check('Index|IndexMut|agree', len(ix) == 2 and len(forms) == 1, 'Index and IndexMut address cells as %s' % forms, sample=forms)


RULES = [r1, r2, r3, r4]
FLOORS = {'C42-R1': 25, 'C42-R2': 9, 'C42-R3': 45, 'C42-R4': 14}
