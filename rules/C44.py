"""C44 — CSPTP clients survive any server traffic and only use matching answers."""
import re
from engine.rulelib import *
from engine.core import short_name
from engine.run import site_desc
from engine import panic

EXPLANATION = (
    "PANIC/GUARD/COUNT rules over statime-csptp's source: (R1) no unproven panic-capable construct reachable from CsptpSource::run, "
    "collect_response, add_correction, convert_to_ntp; (R2) in collect_response every change of the request state, every "
    "CsptpRawMeasurement and the return are dominated by: datagram received Ok, CsptpMessage::deserialize Ok, header.domain_number == "
    "config.domain and header.sequence_id == request_id; the state leaves WaitingForResponse only, a measurement is built from a one-step "
    "Sync, from a two-step Sync when the follow-up was already seen, or from a FollowUp when the Sync was already seen, with the send "
    "time taken from the Sync (one-step) or the follow-up (two-step), the request send time from this request and the receive time from "
    "the Sync datagram's timestamp; (R3) run makes one collect_response call per request with this request's id (the id put into "
    "new_request, a fresh sequence number per iteration) and send timestamp, and hands the controller exactly the two directed "
    "measurements of that one result, only when a result arrived. All matching is on expanded values (local variable names are not "
    "used; the request-state variable is found by its type)."
)
NOT_DECIDED = [
    "tokio/poll_fn plumbing (that the timeout future and the collector are polled as written) is taken from the source shape, not re-derived",
    "the arithmetic of add_correction / convert_to_ntp beyond absence of panics (wrapping by design) is not decided",
    "a server answering twice with the same ids within one request: the second answer is never read because collect_response returned; that the socket is dropped is Rust ownership, not a rule here",
]
M = 'statime_csptp::source::'
# expanded forms (no local names): the datagram, the parsed message, the response TLV, the receive timestamp
RECV = r'\(\(Future::poll\(Pin::new_unchecked\(F::into_future\(ClientSocket::recv\(socket, \[0; \d+\]\)\)\), future::get_context\(resume\)\) as Ready\)\.0 as Ok\)\.0'
PARSE = r'CsptpMessage::deserialize\(array::index\(\[0; \d+\], RangeTo\{end: %s\.bytes_read\}\)\)' % RECV
MSG = r'CsptpMessage::deref\(\(%s as Ok\)\.0\)' % PARSE
TLV = r'\(Iterator::find_map\(TlvSet::tlvs\(%s\.suffix\), closure:[^()]*\) as Some\)\.0' % MSG
RECV_TS = r'\(%s\.timestamp as Some\)\.0' % RECV
ST = r'\(\w+\{.*\} as %s\)'      # payload of the request-state variable in a given variant
SAT = r'TimeInterval\{0: num::saturating_add\(%s\.response_correction\.0, %s\.header\.correction_field\.0\)\}'


def full(rx):
    return re.compile('^' + rx + '$', re.S)


def base_guards(ctx, b, s, key):
    ctx.guard(b, s, 'recv-ok', fact_is(r'^\(Future::poll\(.*ClientSocket::recv\(.*\) as Ready\)\.0$', ['Ok']), key=key + '|recv-ok')
    ctx.guard(b, s, 'parsed', fact_is('^' + PARSE + '$', ['Ok']), key=key + '|deserialize-ok')
    ctx.guard(b, s, 'domain', fact_cmp('Eq', '^' + MSG + r'\.header\.domain_number$', r'^self\.config\.domain$'), key=key + '|domain-matches')
    ctx.guard(b, s, 'sequence', fact_cmp('Eq', '^' + MSG + r'\.header\.sequence_id$', r'^request_id$'), key=key + '|sequence-matches')


def r1(ctx):
    panic.property_rule(ctx, 'C44', 'C44-R1')


def r2(ctx):
    ctx.rule('C44-R2', 'collect_response: state changes, measurement construction and the return are dominated by recv Ok, deserialize Ok, domain == config.domain, '
             'sequence_id == request_id; state machine and field sources as listed')
    P = ctx.P
    b = P.body(M + 'CsptpSource::collect_response::{closure#0}')
    rs = b.aggregates(r'source::RequestState$')
    init = [s for s in rs if s.data['rv']['variant'] == 'WaitingForResponse']
    ctx.check('state|initial', len(init) == 1 and not b.guard_strings(init[0].bb), 'initial state sites %d' % len(init), sample=len(init))
    stv = one(sorted({l['name'] for l in b.locals if l.get('name') and l['ty'].endswith('source::RequestState') and l.get('user')}), 'the RequestState variable of collect_response')
    st_is = lambda v: fact_is(r'^%s\b' % re.escape(stv), [v], names=True)
    body_is = lambda v: fact_is('^' + MSG + r'\.body$', [v])
    trans = [s for s in rs if s.data['rv']['variant'] != 'WaitingForResponse']
    ctx.check('state|transitions', sorted(s.data['rv']['variant'] for s in trans) == ['WaitingForFollowUp', 'WaitingForResponseHaveFollowUp'], 'transitions: %s' % [s.data['rv']['variant'] for s in trans], sample=len(trans))
    two = fact_str('^' + MSG + r'\.header\.two_step_flag$')
    one_ = fact_str('^!' + MSG + r'\.header\.two_step_flag$')
    for s in trans:
        v = s.data['rv']['variant']
        key = 'state->%s' % v
        base_guards(ctx, b, s, key)
        ctx.guard(b, s, 'from-initial', st_is('WaitingForResponse'), key=key + '|only-from-WaitingForResponse')
        ctx.guard(b, s, 'body', body_is('Sync' if v == 'WaitingForFollowUp' else 'FollowUp'), key=key + '|message-kind')
        f = dict(zip(s.data['rv']['fields'], [S(b.operand_term(o)) for o in s.data['rv']['ops']]))
        if v == 'WaitingForFollowUp':
            ctx.guard(b, s, 'two-step', two, key=key + '|two-step')
            want = {'request_recv_time': TLV + r'\.req_ingress_timestamp', 'response_recv_time': RECV_TS, 'request_correction': TLV + r'\.req_correction_field',
                    'response_correction': MSG + r'\.header\.correction_field'}
        else:
            want = {'remote_send_time': r'\(%s\.body as FollowUp\)\.0\.precise_origin_timestamp' % MSG, 'response_correction': MSG + r'\.header\.correction_field'}
        for k, w in want.items():
            ctx.check(key + '|field:' + k, full(w).match(f.get(k, '')) is not None, '%s.%s = %s' % (v, k, f.get(k, '')[-160:]), s.where(), sample=f.get(k, '')[-80:])
    ms = b.aggregates(r'source::CsptpRawMeasurement$')
    ctx.check('measurement|sites', len(ms) == 3, 'CsptpRawMeasurement construction sites: %d' % len(ms), sample=len(ms))
    kinds = {}
    HF = ST % 'WaitingForResponseHaveFollowUp'
    WF = ST % 'WaitingForFollowUp'
    for s in ms:
        f = dict(zip(s.data['rv']['fields'], [S(b.operand_term(o)) for o in s.data['rv']['ops']]))
        rst = f.get('response_send_time', '')
        if full(r'\(%s\.body as Sync\)\.0\.origin_timestamp' % MSG).match(rst):
            kind = 'one-step-sync'
        elif full(HF + r'\.remote_send_time').match(rst):
            kind = 'sync-after-follow-up'
        elif full(r'\(%s\.body as FollowUp\)\.0\.precise_origin_timestamp' % MSG).match(rst):
            kind = 'follow-up-after-sync'
        else:
            kind = 'other'
        kinds[kind] = kinds.get(kind, 0) + 1
        key = 'measurement|' + kind
        base_guards(ctx, b, s, key)
        ctx.check(key + '|request_send_time', f.get('request_send_time') == 'send_timestamp', 'request_send_time = %s' % f.get('request_send_time'), s.where(), sample=f.get('request_send_time'))
        if kind == 'one-step-sync':
            ctx.guard(b, s, 'sync', body_is('Sync'), key=key + '|message-kind')
            ctx.guard(b, s, 'one-step', one_, key=key + '|not-two-step')
            want = {'request_recv_time': TLV + r'\.req_ingress_timestamp', 'response_recv_time': RECV_TS, 'request_correction': TLV + r'\.req_correction_field',
                    'response_correction': MSG + r'\.header\.correction_field'}
        elif kind == 'sync-after-follow-up':
            ctx.guard(b, s, 'sync', body_is('Sync'), key=key + '|message-kind')
            ctx.guard(b, s, 'two-step', two, key=key + '|two-step')
            ctx.guard(b, s, 'have-follow-up', st_is('WaitingForResponseHaveFollowUp'), key=key + '|state')
            want = {'request_recv_time': TLV + r'\.req_ingress_timestamp', 'response_recv_time': RECV_TS, 'request_correction': TLV + r'\.req_correction_field',
                    'response_correction': SAT % (HF, MSG)}
        elif kind == 'follow-up-after-sync':
            ctx.guard(b, s, 'follow-up', body_is('FollowUp'), key=key + '|message-kind')
            ctx.guard(b, s, 'have-sync', st_is('WaitingForFollowUp'), key=key + '|state')
            want = {'request_recv_time': WF + r'\.request_recv_time', 'response_recv_time': WF + r'\.response_recv_time', 'request_correction': WF + r'\.request_correction',
                    'response_correction': SAT % (WF, MSG)}
        else:
            want = {}
            ctx.check(key + '|known-kind', False, 'measurement with send time from %s' % rst[-160:], s.where())
        for k, w in want.items():
            ctx.check(key + '|field:' + k, full(w).match(f.get(k, '')) is not None, '%s = %s' % (k, f.get(k, '')[-200:]), s.where(), sample=f.get(k, '')[-80:])
    ctx.check('measurement|kinds', kinds == {'one-step-sync': 1, 'sync-after-follow-up': 1, 'follow-up-after-sync': 1}, 'measurement kinds %s' % kinds, sample=kinds)
    live = [s for s, v in ret_assigns(b)]
    ctx.check('return|one-site', len(live) == 1, 'return value assignments: %d' % len(live), sample=len(live))
    for s, v in ret_assigns(b):
        base_guards(ctx, b, s, 'return')
        ok = v.count('CsptpRawMeasurement{') >= 3 and re.match(r'^\w*\{', v) is not None
        ctx.check('return|is-one-of-the-measurements', ok, 'returns %s' % v[:120], s.where(), sample=v.count('CsptpRawMeasurement{'))
    de = b.calls(r'CsptpMessage::deserialize$')
    ctx.check('deserialize|one-site', len(de) == 1 and full(PARSE).match(S(b.call_term(de[0].data)) if hasattr(b, 'call_term') else '') is not None or
              (len(de) == 1 and full(r'array::index\(\[0; \d+\], RangeTo\{end: %s\.bytes_read\}\)' % RECV).match(S(b.call_args(de[0])[0])) is not None),
              'deserialize argument %s' % [S(b.call_args(c)[0])[:160] for c in de], sample=len(de))


def r3(ctx):
    ctx.rule('C44-R3', 'run: one collect_response per request, called with the id put into new_request and the send_event timestamp; request ids advance by one per iteration; '
             'exactly two handle_measurement calls, both dominated by a result having arrived, one per direction of that single result')
    P = ctx.P
    b = P.body(M + 'CsptpSource::run::{closure#0}::{closure#1}')
    cr = b.calls(r'CsptpSource::collect_response$')
    allcr = [x.npath for x in P.bodies_matching(r'^<?statime_csptp::') for c in x.calls(r'collect_response$')]
    ctx.check('collect_response|one-site', len(cr) == 1 and len(allcr) == 1, 'collect_response call sites: %s' % allcr, sample=len(allcr))
    nr = one(b.calls(r'CsptpMessage::new_request$'), 'new_request call')
    SENT = r'\(\(Future::poll\(.*ClientSocket::send_event\(.*\) as Ready\)\.0 as Ok\)\.0'
    for c in cr:
        rid_used, rid_sent = S(b.call_args(c)[2]), S(b.call_args(nr)[2])
        # identity of the value, not only of its expansion: a mutable counter read before and after its increment expands to the same phi
        same_binding = N(b.call_args(c)[2]) == N(b.call_args(nr)[2]) and re.match(r'^\w+$', N(b.call_args(c)[2])) is not None
        ctx.check('collect_response|request_id', same_binding and rid_used == rid_sent and re.match(r'^\w+\{0 \| num::wrapping_add\(\w+, 1\)\}$', rid_used) is not None,
                  'collect_response waits for id `%s`, the request carries `%s`' % (rid_used, rid_sent), c.where(), sample=rid_used)
        ctx.check('collect_response|domain', S(b.call_args(nr)[1]) == 'self.config.domain', 'request domain %s' % S(b.call_args(nr)[1]), nr.where(), sample=S(b.call_args(nr)[1]))
        ts = S(b.call_args(c)[3])
        ctx.check('collect_response|send_timestamp', full(SENT).match(ts) is not None, 'send timestamp %s' % ts[-120:], c.where(), sample=ts[-60:])
        ctx.guard(b, c, 'sent', fact_is(r'^\(Future::poll\(.*ClientSocket::send_event\(.*\) as Ready\)\.0$', ['Ok']), key='collect_response|after-send-ok')
    hm = b.calls(r'SourceController::handle_measurement$')
    allhm = [x.npath for x in P.bodies_matching(r'^<?statime_csptp::source') for c in x.calls(r'handle_measurement$')]
    ctx.check('handle_measurement|sites', len(hm) == 2 and len(allhm) == 2, 'handle_measurement call sites: %d (%d in module)' % (len(hm), len(allhm)), sample=len(allhm))
    dirs, srcs = [], set()
    RESULT = r'\(\(PollFn::poll\(.*\) as Ready\)\.0 as Some\)\.0'
    for c in hm:
        ctx.guard(b, c, 'have-result', fact_is(r'^\(PollFn::poll\(.*\) as Ready\)\.0$', ['Some']), key='handle_measurement|%s|result-arrived' % site_desc(b, c))
        m = S(b.call_args(c)[1])
        mm = re.match(r'^Measurement\{sender_id: self\.(\w+), receiver_id: self\.(\w+), sender_ts: source::convert_to_ntp\(source::add_correction\((?P<m>.*?)\.(\w+), (?P=m)\.(\w+)\)\), '
                      r'receiver_ts: source::convert_to_ntp\((?P=m)\.(\w+)\),', m, re.S)
        if mm:
            dirs.append((mm.group(1), mm.group(2), mm.group(4), mm.group(5), mm.group(6)))
            srcs.add(mm.group('m'))
        else:
            dirs.append(m[:120])
    want = [('local_clock', 'remote_clock', 'request_send_time', 'request_correction', 'request_recv_time'), ('remote_clock', 'local_clock', 'response_send_time', 'response_correction', 'response_recv_time')]
    ctx.check('handle_measurement|directions', sorted(map(str, dirs)) == sorted(map(str, want)), 'measurements handed over: %s' % dirs, sample=[str(d) for d in dirs])
    ctx.check('measurement|from-collect_response', len(srcs) == 1 and all(full(RESULT).match(x) for x in srcs), 'measurements are taken from %s' % [x[-100:] for x in srcs], sample=len(srcs))


def r4(ctx):
    ctx.rule('C44-R4', 'the parse gate the client relies on (same as C45-R4): CsptpMessage::deserialize is Ok only for sdoId 0x300, major version 2, and a FollowUp or a Sync with '
             'exactly one valid request/response TLV')
    from rules.C45 import wellformed_gate
    wellformed_gate(ctx)


RULES = [r1, r2, r3, r4]
FLOORS = {'C44-R2': 60, 'C44-R3': 9, 'C44-R4': 13}
