"""C44 — CSPTP clients survive any server traffic and only use matching answers."""
import re
from engine.rulelib import *
from engine.core import short_name
from engine.run import site_desc
from engine import panic

EXPLANATION = (
    "PANIC/GUARD/COUNT rules over statime-csptp's source: (R1) no unproven panic-capable construct reachable from CsptpSource::run, "
    "collect_response, add_correction, convert_to_ntp; (R2) in collect_response every change of the request state, every "
    "CsptpRawMeasurement and the return are dominated by: datagram received Ok, CsptpMessage::deserialize Ok, header.domain_number == "
    "config.domain and header.sequence_id == request_id; the state leaves WaitingForResponse only, a measurement is built from a one-step "
    "Sync, from a two-step Sync when the follow-up was already seen, or from a FollowUp when the Sync was already seen, with the send "
    "time taken from the Sync (one-step) or the follow-up (two-step), the request send time from this request and the receive time from "
    "the Sync datagram's timestamp; (R3) run makes one collect_response call per request with this request's id (the id put into "
    "new_request, a fresh sequence number per iteration) and send timestamp, and hands the controller exactly the two directed "
    "measurements of that one result, only when a result arrived."
)
NOT_DECIDED = [
    "tokio/poll_fn plumbing (that the timeout future and the collector are polled as written) is taken from the source shape, not re-derived",
    "the arithmetic of add_correction / convert_to_ntp beyond absence of panics (wrapping by design) is not decided",
    "a server answering twice with the same ids within one request: the second answer is never read because collect_response returned; that the socket is dropped is Rust ownership, not a rule here",
]
M = 'statime_csptp::source::'
MSG = r'CsptpMessage::deref\(message\)'


def base_guards(ctx, b, s, key):
    ctx.guard(b, s, 'recv-ok', fact_is(r'^result$', ['Ok'], names=True), key=key + '|recv-ok')
    ctx.guard(b, s, 'parsed', fact_is(r'^CsptpMessage::deserialize\(packet\)$', ['Ok'], names=True), key=key + '|deserialize-ok')
    ctx.guard(b, s, 'domain', fact_cmp('Eq', r'^%s\.header\.domain_number$' % MSG, r'^self\.config\.domain$', names=True), key=key + '|domain-matches')
    ctx.guard(b, s, 'sequence', fact_cmp('Eq', r'^%s\.header\.sequence_id$' % MSG, r'^request_id$', names=True), key=key + '|sequence-matches')


def r1(ctx):
    panic.property_rule(ctx, 'C44', 'C44-R1')


def r2(ctx):
    ctx.rule('C44-R2', 'collect_response: state changes, measurement construction and the return are dominated by recv Ok, deserialize Ok, domain == config.domain, '
             'sequence_id == request_id; state machine and field sources as listed')
    P = ctx.P
    b = P.body(M + 'CsptpSource::collect_response::{closure#0}')
    rs = b.aggregates(r'source::RequestState$')
    init = [s for s in rs if s.data['rv']['variant'] == 'WaitingForResponse']
    ctx.check('state|initial', len(init) == 1 and not b.guard_strings(init[0].bb), 'initial state sites %d' % len(init), sample=len(init))
    st_is = lambda v: fact_is(r'^state\b', [v], names=True)
    trans = [s for s in rs if s.data['rv']['variant'] != 'WaitingForResponse']
    ctx.check('state|transitions', sorted(s.data['rv']['variant'] for s in trans) == ['WaitingForFollowUp', 'WaitingForResponseHaveFollowUp'], 'transitions: %s' % [s.data['rv']['variant'] for s in trans], sample=len(trans))
    for s in trans:
        v = s.data['rv']['variant']
        key = 'state->%s' % v
        base_guards(ctx, b, s, key)
        ctx.guard(b, s, 'from-initial', st_is('WaitingForResponse'), key=key + '|only-from-WaitingForResponse')
        ctx.guard(b, s, 'body', fact_is(r'^%s\.body$' % MSG, ['Sync' if v == 'WaitingForFollowUp' else 'FollowUp'], names=True), key=key + '|message-kind')
        f = dict(zip(s.data['rv']['fields'], [N(b.operand_term(o)) for o in s.data['rv']['ops']]))
        if v == 'WaitingForFollowUp':
            ctx.guard(b, s, 'two-step', fact_str(r'^%s\.header\.two_step_flag$' % MSG.replace('message', r'\(CsptpMessage::deserialize\(.*\) as Ok\)\.0')), key=key + '|two-step')
            want = {'request_recv_time': 'response_tlv.req_ingress_timestamp', 'response_recv_time': 'recv_timestamp', 'request_correction': 'response_tlv.req_correction_field',
                    'response_correction': 'CsptpMessage::deref(message).header.correction_field'}
        else:
            want = {'remote_send_time': 'follow_up_message.precise_origin_timestamp', 'response_correction': 'CsptpMessage::deref(message).header.correction_field'}
        for k, w in want.items():
            ctx.check(key + '|field:' + k, f.get(k) == w, '%s.%s = %s' % (v, k, f.get(k)), s.where(), sample=f.get(k))
    ms = b.aggregates(r'source::CsptpRawMeasurement$')
    ctx.check('measurement|sites', len(ms) == 3, 'CsptpRawMeasurement construction sites: %d' % len(ms), sample=len(ms))
    kinds = {}
    for s in ms:
        f = dict(zip(s.data['rv']['fields'], [N(b.operand_term(o)) for o in s.data['rv']['ops']]))
        if f.get('response_send_time') == 'sync_message.origin_timestamp':
            kind = 'one-step-sync'
        elif f.get('response_send_time') == 'remote_send_time':
            kind = 'sync-after-follow-up'
        elif f.get('response_send_time') == 'follow_up_message.precise_origin_timestamp':
            kind = 'follow-up-after-sync'
        else:
            kind = 'other:%s' % f.get('response_send_time')
        kinds[kind] = kinds.get(kind, 0) + 1
        key = 'measurement|' + kind
        base_guards(ctx, b, s, key)
        ctx.check(key + '|request_send_time', f.get('request_send_time') == 'send_timestamp', 'request_send_time = %s' % f.get('request_send_time'), s.where(), sample=f.get('request_send_time'))
        two = fact_str(r'^\(CsptpMessage::deref\(.*\)\.header\.two_step_flag$|^CsptpMessage::deref\(.*\)\.header\.two_step_flag$')
        one_ = fact_str(r'^!\(?CsptpMessage::deref\(.*\)\.header\.two_step_flag$')
        if kind == 'one-step-sync':
            ctx.guard(b, s, 'sync', fact_is(r'^%s\.body$' % MSG, ['Sync'], names=True), key=key + '|message-kind')
            ctx.guard(b, s, 'one-step', one_, key=key + '|not-two-step')
            want = {'request_recv_time': 'response_tlv.req_ingress_timestamp', 'response_recv_time': 'recv_timestamp', 'request_correction': 'response_tlv.req_correction_field',
                    'response_correction': 'CsptpMessage::deref(message).header.correction_field'}
        elif kind == 'sync-after-follow-up':
            ctx.guard(b, s, 'sync', fact_is(r'^%s\.body$' % MSG, ['Sync'], names=True), key=key + '|message-kind')
            ctx.guard(b, s, 'two-step', two, key=key + '|two-step')
            ctx.guard(b, s, 'have-follow-up', st_is('WaitingForResponseHaveFollowUp'), key=key + '|state')
            want = {'request_recv_time': 'response_tlv.req_ingress_timestamp', 'response_recv_time': 'recv_timestamp', 'request_correction': 'response_tlv.req_correction_field',
                    'response_correction': 'TimeInterval{0: num::saturating_add(response_correction.0, CsptpMessage::deref(message).header.correction_field.0)}'}
        elif kind == 'follow-up-after-sync':
            ctx.guard(b, s, 'follow-up', fact_is(r'^%s\.body$' % MSG, ['FollowUp'], names=True), key=key + '|message-kind')
            ctx.guard(b, s, 'have-sync', st_is('WaitingForFollowUp'), key=key + '|state')
            want = {'request_recv_time': 'request_recv_time', 'response_recv_time': 'response_recv_time', 'request_correction': 'request_correction',
                    'response_correction': 'TimeInterval{0: num::saturating_add(response_correction.0, CsptpMessage::deref(message).header.correction_field.0)}'}
        else:
            want = {}
            ctx.check(key + '|known-kind', False, 'measurement with send time from %s' % f.get('response_send_time'), s.where())
        for k, w in want.items():
            ctx.check(key + '|field:' + k, f.get(k) == w, '%s = %s' % (k, f.get(k)), s.where(), sample=f.get(k))
    ctx.check('measurement|kinds', kinds == {'one-step-sync': 1, 'sync-after-follow-up': 1, 'follow-up-after-sync': 1}, 'measurement kinds %s' % kinds, sample=kinds)
    # recv_timestamp / response_tlv come from this datagram
    li = [i for i, l in enumerate(b.locals) if l.get('name') == 'recv_timestamp']
    rt = [S(b.local_term(i)) for i in li]
    ctx.check('recv_timestamp|source', len(rt) == 1 and re.search(r' as Ok\)\.0\.timestamp as Some\)\.0$', rt[0]) is not None, 'recv_timestamp = %s' % [x[-80:] for x in rt], sample=[x[-50:] for x in rt])
    li = [i for i, l in enumerate(b.locals) if l.get('name') == 'response_tlv']
    tl = [S(b.local_term(i)) for i in li]
    ctx.check('response_tlv|source', len(tl) == 1 and re.match(r'^\(Iterator::find_map\(TlvSet::tlvs\(CsptpMessage::deref\(\(CsptpMessage::deserialize\(.*\) as Ok\)\.0\)\.suffix\), closure:.*\) as Some\)\.0$', tl[0]) is not None,
              'response_tlv = %s' % [x[:100] for x in tl], sample=len(tl))
    rets = b.returns()
    live = [s for s, v in ret_assigns(b)]
    ctx.check('return|one-site', len(live) == 1, 'return value assignments: %d' % len(live), sample=len(live))
    for s, v in ret_assigns(b):
        base_guards(ctx, b, s, 'return')
        ok = v.count('CsptpRawMeasurement{') == 3 and v.startswith('measurement{')
        ctx.check('return|is-one-of-the-measurements', ok, 'returns %s' % v[:120], s.where(), sample=v.count('CsptpRawMeasurement{'))
    # the packet parsed is the received prefix of this datagram's buffer
    de = one(b.calls(r'CsptpMessage::deserialize$'), 'deserialize call')
    arg = S(b.call_args(de)[0])
    ctx.check('deserialize|argument', re.match(r'^array::index\(\[0; \d+\], RangeTo\{end: \(.* as Ok\)\.0\.bytes_read\}\)$', arg) is not None, 'deserialize argument %s' % arg[:160], de.where(), sample=arg[:80])


def r3(ctx):
    ctx.rule('C44-R3', 'run: one collect_response per request, called with the id put into new_request and the send_event timestamp; request ids advance by one per iteration; '
             'exactly two handle_measurement calls, both dominated by a result having arrived, one per direction of that single result')
    P = ctx.P
    b = P.body(M + 'CsptpSource::run::{closure#0}::{closure#1}')
    cr = b.calls(r'CsptpSource::collect_response$')
    allcr = [x.npath for x in P.bodies_matching(r'^<?statime_csptp::') for c in x.calls(r'collect_response$')]
    ctx.check('collect_response|one-site', len(cr) == 1 and len(allcr) == 1, 'collect_response call sites: %s' % allcr, sample=len(allcr))
    nr = one(b.calls(r'CsptpMessage::new_request$'), 'new_request call')
    for c in cr:
        args = [N(a) for a in b.call_args(c)]
        ctx.check('collect_response|request_id', args[2] == 'request_id' and N(b.call_args(nr)[2]) == 'request_id', 'collect_response(.., %s, ..) vs new_request(.., %s)' % (args[2], N(b.call_args(nr)[2])), c.where(), sample=args[2])
        ctx.check('collect_response|domain', N(b.call_args(nr)[1]) == 'self.config.domain', 'request domain %s' % N(b.call_args(nr)[1]), nr.where(), sample=N(b.call_args(nr)[1]))
        ts = S(b.call_args(c)[3])
        ctx.check('collect_response|send_timestamp', re.search(r'ClientSocket::send_event\(', ts) is not None and re.search(r' as Ok\)\.0$', ts) is not None, 'send timestamp %s' % ts[-120:], c.where(), sample=ts[-60:])
        ctx.guard(b, c, 'sent', fact_is(r'^result$', ['Ok'], names=True), key='collect_response|after-send-ok')
    rid = [S(b.local_term(i)) for i, l in enumerate(b.locals) if l.get('name') == 'request_id']
    ctx.check('request_id|fresh-per-iteration', rid == ['sequence_id{0 | num::wrapping_add(sequence_id, 1)}'], 'request_id = %s' % rid, sample=rid)
    hm = b.calls(r'SourceController::handle_measurement$')
    allhm = [x.npath for x in P.bodies_matching(r'^<?statime_csptp::source') for c in x.calls(r'handle_measurement$')]
    ctx.check('handle_measurement|sites', len(hm) == 2 and len(allhm) == 2, 'handle_measurement call sites: %d (%d in module)' % (len(hm), len(allhm)), sample=len(allhm))
    dirs = []
    for c in hm:
        ctx.guard(b, c, 'have-result', fact_is(r'^result$', ['Some'], names=True), key='handle_measurement|%s|result-arrived' % site_desc(b, c))
        m = N(b.call_args(c)[1])
        mm = re.match(r'^Measurement\{sender_id: self\.(\w+), receiver_id: self\.(\w+), sender_ts: source::convert_to_ntp\(source::add_correction\(measurement\.(\w+), measurement\.(\w+)\)\), '
                      r'receiver_ts: source::convert_to_ntp\(measurement\.(\w+)\),', m)
        dirs.append(mm.groups() if mm else m[:120])
    want = [('local_clock', 'remote_clock', 'request_send_time', 'request_correction', 'request_recv_time'), ('remote_clock', 'local_clock', 'response_send_time', 'response_correction', 'response_recv_time')]
    ctx.check('handle_measurement|directions', sorted(map(str, dirs)) == sorted(map(str, want)), 'measurements handed over: %s' % dirs, sample=[str(d) for d in dirs])
    ms = {S(b.local_term(i)) for i, l in enumerate(b.locals) if l.get('name') == 'measurement'}
    ctx.check('measurement|from-collect_response', len(ms) == 1 and all(re.search(r'PollFn::poll\(', x) and re.search(r' as Some\)\.0$', x) for x in ms), 'measurement = %s' % [x[-100:] for x in ms], sample=len(ms))


RULES = [r1, r2, r3]
FLOORS = {'C44-R2': 60, 'C44-R3': 10}
