"""C22 — no datagram can crash the NTP server."""
from engine.rulelib import *
from engine import panic
from rules.C15 import action_local, SR

EXPLANATION = (
    "PANIC reachability from Server::handle (generic over the clock, all CipherProvider implementations): every reachable "
    "panic-capable construct is discharged by a local proof (constant index below a dominating length check, try_into of a "
    "fixed-width range, index modulo length, unwrap dominated by is_some, ...) or by a reasoned audit entry; plus the "
    "structural dependencies the audit relies on: the `Ignore => unreachable!()` arm is infeasible (path-sensitive), the NTPv3 "
    "arms of the NTS builders are unreachable because NTPv3 parsing never yields a cookie or a decrypt error."
)
NOT_DECIDED = ["environment failures (clock read error, poisoned lock, allocation failure) are not datagram-induced and are listed as ENV in the audit"]
SRV = 'ntp_proto::server::Server'
PKT = 'ntp_proto::packet::NtpPacket'


def r1(ctx):
    panic.property_rule(ctx, 'C22', 'C22-R1')


def r2(ctx):
    ctx.rule('C22-R2', 'dependencies of audited unreachable!() arms: (a) `ServerResponse::Ignore => unreachable!()` in handle_inner is infeasible; '
             '(b) NtpPacket::deserialize builds V3 packets with default (empty) extension data and no cookie, so the NTS builders\' V3 arms '
             'cannot be entered')
    P = ctx.P
    b = P.body(SRV + '::handle_inner')
    al = action_local(b)
    name = b.local_name(al)
    seen = b.var_reach(al, SR)
    arms = [d for (s, d, fs) in b.edges() if fs and all(f.kind == 'is' and b._is_local_term(f.term, name) and set(f.variants) <= {'Ignore'} for f in fs)]
    ctx.check('handle_inner|ignore-arm-infeasible', len(arms) == 1 and arms[0] not in seen, 'the unreachable!() arm for ServerResponse::Ignore is reachable', sample=arms)
    d = P.body(PKT + '::deserialize')
    v3 = [s for s in d.aggregates(r'packet::NtpHeader$', 'V3')]
    ctx.check('deserialize|v3-sites', len(v3) >= 1, 'V3 construction not found', sample=len(v3))
    efd = d.calls(r'ExtensionFieldData::deserialize$')
    for s in efd:
        ok = d.must_pass(s.bb, lambda f: (f.kind in ('eq',) and f.values and all(v in ('4', '5') for v in f.values)) or (f.kind == 'ne' and '3' in (f.values or []))) \
            or not any(d.can_reach(s.bb, x.bb) for x in v3)
        ctx.check('deserialize|%s|not-for-v3' % site_desc_(d, s), ok, 'extension fields (and thus cookies / decrypt errors) can be parsed for NTPv3 packets', s.where())
    ctx.check('deserialize|efd-sites', len(efd) >= 2, 'ExtensionFieldData::deserialize call sites: %d' % len(efd), sample=len(efd))


def site_desc_(b, s):
    from engine.run import site_desc
    return site_desc(b, s)


RULES = [r1, r2]
FLOORS = {'C22-R1': 100, 'C22-R2': 4}
