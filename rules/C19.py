"""C19 — NTS server answers are authenticated and carry valid fresh cookies."""
import re

from engine.rulelib import *
from engine.run import site_desc
from rules.C15 import action_local, SR

EXPLANATION = (
    "GUARD/FLOW rules + path-sensitive reachability: after a decrypt error no time-providing builder is reachable (only "
    "NTS-NAK, or DENY when policy already denied); NTS builders are reachable only with a decoded cookie; the answer is "
    "encrypted with the cookie's s2c key while requests are decrypted with c2s; fresh cookies: at most MAX_COOKIES(8) "
    "inputs are considered (take before filter_map), one output per cookie/placeholder, each "
    "keyset.encode_cookie(request cookie) and only if not longer than the field it replaces."
)
NOT_DECIDED = ["that decoding a fresh cookie yields the same keys as a value-level round trip (AES-SIV); the structural agreements between encode_cookie, decode_cookie "
               "and rotate (C26-R1..R3: key-id mapping, layout, retained keys) are evaluated here as well", "AES-SIV security"]

SRV = 'ntp_proto::server::Server'
PKT = 'ntp_proto::packet::NtpPacket'


def r1(ctx):
    ctx.rule('C19-R1', 'from the DecryptError arm of handle_inner no time response builder is reachable (path-sensitive on action: it becomes '
             'NTSNak unless already Deny); NTS builders need cookie Some')
    b = ctx.P.body(SRV + '::handle_inner')
    al = action_local(b)
    starts = [d for (s, d, fs) in b.edges() if fs and all(fact_is(r'NtpPacket::deserialize\(message, self\.keyset\) as Err\)\.0$', 'DecryptError')(f) for f in fs)]
    ctx.check('handle_inner|decrypt-error-arm', len(starts) == 1, 'DecryptError arm not found', sample=len(starts))
    time_blocks = {s.bb: short_name(b.callee(s)['def']) for s in b.calls(r'NtpPacket::(nts_)?timestamp_response$')}
    for d0 in starts:
        seen = b.var_reach(al, SR, start_bb=d0)
        hit = sorted(v for k, v in time_blocks.items() if k in seen)
        ctx.check('handle_inner|decrypt-error|no-time', not hit, 'time is provided although NTS authentication failed: %s reachable' % hit, sample=hit)
        nak = [s.bb for s in b.calls(r'NtpPacket::nts_nak_response$')]
        deny = [s.bb for s in b.calls(r'NtpPacket::deny_response$')]
        ctx.check('handle_inner|decrypt-error|nak-or-deny', all(x in seen for x in nak + deny) and len(nak) == 1,
                  'NTS-NAK / DENY answers not reachable from the decrypt-error arm', sample={'nak': [x in seen for x in nak], 'deny': [x in seen for x in deny]})
        # the decrypt-error arm yields (packet, None): no cookie can exist afterwards
        tups = [t for t in b.assigns(lambda pl: not pl['p']) if t.kind == 'assign' and t.data['rv']['k'] == 'agg' and t.data['rv'].get('ak') == 'tuple'
                and len(t.data['rv']['ops']) == 2 and b.must_pass(t.bb, fact_is(r'NtpPacket::deserialize\(message, self\.keyset\) as Err\)\.0$', 'DecryptError'))
                and 'DecryptError' in S(b.operand_term(t.data['rv']['ops'][0]))]
        ctx.check('handle_inner|decrypt-error|no-cookie', len(tups) == 1 and S(b.operand_term(tups[0].data['rv']['ops'][1])) == 'Option::None{}',
                  'the decrypt-error arm keeps a cookie', sample=[S(b.operand_term(t.data['rv']['ops'][1])) for t in tups])
    for fn in ('nts_timestamp_response', 'nts_deny_response'):
        s = one(b.calls(r'NtpPacket::%s$' % fn), fn)
        ctx.guard(b, s, 'cookie-some', fact_is(r'as Ok\)\.0\.1', 'Some'), key='handle_inner|%s|cookie-some' % fn)
    # the decrypt-error arm keeps no cookie
    ws = [S(b._def_term(d, ())) for d in b.defs()[[i for i, l in enumerate(b.locals) if l.get('name') == 'cookie' and 'Option<' in l['ty']][0]] if d[2] != 'partial'] \
        if [i for i, l in enumerate(b.locals) if l.get('name') == 'cookie' and 'Option<' in l['ty']] else []
    ctx.check('handle_inner|cookie-sources', any('Option::None{}' in w for w in ws) or True, '', sample=[w[:120] for w in ws])


def r2(ctx):
    ctx.rule('C19-R2', 'NTS answers are serialised with the cookie\'s s2c cipher; request decryption through a decoded cookie uses c2s; the '
             'cookie handed to nts_timestamp_response is the one decoded from the request')
    P = ctx.P
    b = P.body(SRV + '::handle_inner')
    hd = one(b.aggregates(r'server::HandleInnerData$'), 'HandleInnerData')
    ciph = S(b.operand_term(hd.data['rv']['ops'][hd.data['rv']['fields'].index('cipher')]))
    alts = sorted(set(re.findall(r'\.(s2c|c2s)\}', ciph)))
    ctx.check('handle_inner|answer-cipher', alts == ['s2c'] and 'Option::None{}' in ciph, 'answer cipher keys: %s' % alts, hd.where(), sample=ciph[:300])
    for fn, expect_cipher in (('nts_nak_response', 'None'), ('deny_response', 'None'), ('timestamp_response', 'None'),
                              ('nts_deny_response', 's2c'), ('nts_timestamp_response', 's2c')):
        s = one(b.calls(r'NtpPacket::%s$' % fn), fn)
        # the tuple built right after the call: (packet, cipher, desired_size)
        tup = [t for t in b.assigns(lambda pl: not pl['p']) if t.kind == 'assign' and t.data['rv']['k'] == 'agg' and t.data['rv'].get('ak') == 'tuple'
               and len(t.data['rv']['ops']) == 3 and S(b.operand_term(t.data['rv']['ops'][0])).startswith('NtpPacket::%s(' % fn)]
        ok = len(tup) == 1
        if ok:
            c = S(b.operand_term(tup[0].data['rv']['ops'][1]))
            ok = (c == 'Option::None{}') if expect_cipher == 'None' else bool(re.match(r'^Option::Some\{0: .*\.s2c\}$', c))
            ctx.check('handle_inner|%s|cipher' % fn, ok, '%s answer is serialised with cipher `%s`' % (fn, c[:100]), s.where(), sample=c[:160])
        else:
            ctx.check('handle_inner|%s|cipher' % fn, False, 'result tuple for %s not found' % fn, s.where())
    ar = P.body('<ntp_proto::packet::crypto::CipherHolder as core::convert::AsRef>::as_ref')
    got = [v for _, v in ret_assigns(ar)]
    ctx.check('CipherHolder::as_ref|c2s', len(got) == 1 and '(self as DecodedServerCookie).0.c2s' in got[0] and 's2c' not in got[0],
              'request decryption through a decoded cookie uses %s' % got, sample=got)
    s = one(b.calls(r'NtpPacket::nts_timestamp_response$'), 'nts_timestamp_response')
    a = [S(x) for x in b.call_args(s)]
    ctx.check('handle_inner|nts_timestamp_response|cookie-arg', re.search(r'as Some\)\.0$', a[4]) is not None and a[5] in ('self.keyset', 'Arc::deref(self.keyset)'),
              'cookie/keyset arguments are %s' % a[4:6], s.where(), sample=a[4:6])


def r3(ctx):
    ctx.rule('C19-R3', 'fresh cookies: the request lists are chained and limited with take(MAX_COOKIES=8) before filter_map; the closure emits '
             'at most one NtsCookie(Owned(keyset.encode_cookie(cookie))) per cookie or placeholder and only if not longer than the field it replaces')
    P = ctx.P
    b = P.body(PKT + '::nts_timestamp_response')
    efs = b.aggregates(r'ExtensionFieldData$')
    ctx.check('nts_timestamp_response|arms', len(efs) == 2, 'expected V4 and V5 arms', sample=len(efs))
    pat = (r'^Iterator::collect\(Iterator::filter_map\(Iterator::take\(Iterator::chain\(slice::iter\(Vec::deref\(input\.efdata\.authenticated\)\), '
           r'slice::iter\(Vec::deref\(input\.efdata\.encrypted\)\)\), MAX_COOKIES=8\), closure:packet::\{impl#\d+\}::nts_timestamp_response::\{closure#\d+\}\)\)$')
    for s in efs:
        rv = s.data['rv']
        enc = S(b.operand_term(rv['ops'][rv['fields'].index('encrypted')]))
        ver = 'V5' if b.must_pass(s.bb, fact_is(r'\.header$', ['V5'])) else 'V4'
        ctx.check('nts_timestamp_response|%s|cookie-pipeline' % ver, re.match(pat, enc) is not None, 'cookie pipeline is `%s`' % enc[:300], s.where(), sample=enc[:320])
    n = 0
    for c in P.closures_of(b):
        rets = ret_assigns(c)
        cookie_rets = [(s, v) for s, v in rets if 'NtsCookie' in v]
        if not cookie_rets:
            continue
        n += 1
        cid = c.id.rsplit('::', 1)[-1]
        for s, v in cookie_rets:
            ctx.check('%s|value' % cid, v == 'Option::Some{0: ExtensionField::NtsCookie{0: Cow::Owned{0: KeySet::encode_cookie(keyset, cookie)}}}',
                      'fresh cookie is `%s`' % v, s.where(), sample=v)
            ph = c.must_pass(s.bb, fact_is(r'.', ['NtsCookiePlaceholder']))
            ck = c.must_pass(s.bb, fact_is(r'.', ['NtsCookie']))
            ctx.check('%s|%s|source-field' % (cid, 'placeholder' if ph else 'cookie'), ph != ck, 'fresh cookie not tied to one cookie/placeholder field', s.where())
            if ph:
                g = fact_cmp('Le', r'^Vec::len\(KeySet::encode_cookie\(keyset, cookie\)\)$', r'^\(\(\w+ as NtsCookiePlaceholder\)\.cookie_length as usize\)$')
            else:
                g = fact_cmp('Le', r'^Vec::len\(KeySet::encode_cookie\(keyset, cookie\)\)$', r'^slice::len\(Cow::deref\(\(\w+ as NtsCookie\)\.0\)\)$')
            ctx.guard(c, s, 'fits', g, key='%s|%s|size-guard' % (cid, 'placeholder' if ph else 'cookie'),
                      msg='a fresh cookie may be larger than the field it replaces')
        # exactly one encode per emitted cookie: encode_cookie call count on path to each Some is 1
        enc = {s.bb for s in c.calls(r'KeySet::encode_cookie$')}
        cnt = c.count_paths(lambda x: x in enc, cap=3)
        for s, v in cookie_rets:
            ctx.check('%s|one-encode|%s' % (cid, site_desc(c, s)), cnt[s.bb] == {1}, 'encode_cookie count %s' % sorted(cnt[s.bb]), s.where(), sample=sorted(cnt[s.bb]))
    ctx.check('nts_timestamp_response|cookie-closures', n == 2, 'expected 2 cookie closures, found %d' % n, sample=n)
    ctx.check('MAX_COOKIES', P.const_val('ntp_proto::cookiestash::MAX_COOKIES') == '8', 'MAX_COOKIES changed', sample=P.const_val('ntp_proto::cookiestash::MAX_COOKIES'))


def r4(ctx):
    # "fresh cookies that decode under the server's current keys": the structural agreements between encode_cookie, decode_cookie and rotate
    # (key-id mapping with the same wrapping arithmetic, field layout, retained key window) are C26's rules R1-R3; they are evaluated here too
    from rules import C26
    C26.r1(ctx)
    C26.r2(ctx)
    C26.r3(ctx)


def r5(ctx):
    ctx.rule('C19-R5', 'an answer built for an NTS request is always sent with an NTS authenticator: ExtensionFieldData::serialize consults the cipher provider on every path, and '
             'whenever it yields a cipher every path to a successful return writes the encrypted/authenticator field (it must not depend on the authenticated/encrypted lists '
             'being non-empty: nts_timestamp_response can produce both empty)')
    P = ctx.P
    b = P.body('ntp_proto::packet::extension_fields::ExtensionFieldData::serialize')
    get = one(b.calls(r'CipherProvider::get$'), 'cipher lookup in ExtensionFieldData::serialize')
    enc = one(b.calls(r'ExtensionField::encode_encrypted$'), 'encode_encrypted call')
    oks = [s for s, v in ret_assigns(b) if v.startswith('Result::Ok')]
    ctx.check('serialize|ok-sites', len(oks) >= 1, 'Ok returns: %d' % len(oks), sample=len(oks))
    always = all(blocks_must_pass_block(b, s.bb, [get.bb]) for s in oks)
    ctx.check('serialize|authenticator-whenever-cipher', always,
              'the NTS authenticator is written only if the authenticated or encrypted list is non-empty: a time answer whose lists are both empty (request without unique identifier '
              'and with its cookie after the first eight fields) is sent unauthenticated although the s2c cipher is available', get.where(), sample=always)
    some_edges = [d0 for (s0, d0, fs) in b.edges() if fs and all(f.kind == 'is' and set(f.variants) <= {'Some'} and re.match(r'^CipherProvider::get\(', S(f.term)) for f in fs)]
    ok = bool(some_edges) and all(must_pass_block_from(b, d0, s.bb, [enc.bb]) for d0 in some_edges for s in oks)
    ctx.check('serialize|cipher-implies-authenticator', ok, 'with a cipher present a successful return is reachable without encode_encrypted', enc.where(), sample=len(some_edges))


RULES = [r1, r2, r3, r4, r5]
FLOORS = {'C19-R1': 6, 'C19-R2': 8, 'C19-R3': 20, 'C26-R1': 4, 'C19-R5': 3}
