"""C39 — configuration loading never crashes; accepted step thresholds are never negative or NaN."""
import re
from engine.rulelib import *
from engine.run import site_desc
from engine import panic

EXPLANATION = (
    "GUARD/WHO/PANIC rules: every site in the workspace that initialises a field of config::StepThreshold (forward, backward) or "
    "the payload of config::ThresholdPart takes one of the enumerated safe forms — None/default, Some(from_seconds(<non-negative "
    "float literal>)), Some(from_seconds(x)) dominated on every path by !x.is_nan() and x >= 0.0, or (per-direction map form) the "
    "flattened payload of a ThresholdPart produced by MapAccess::next_value; no function writes those fields after construction; "
    "the integer visitor methods of both visitors delegate to the validated visit_f64 of the same visitor; and no panic-capable "
    "construct is reachable from Config::from_file / Config::check or from any Deserialize / Visitor method implemented in ntp-proto "
    "and ntpd (the callbacks toml::from_str invokes)."
)
NOT_DECIDED = [
    "the toml and serde crates themselves (outside the workspace) are leaves: a panic inside toml::from_str that is independent of the workspace's Deserialize impls is not decided",
    "command-line argument splitting (Config::from_args / CliArg::normalize_arguments) is not configuration text and is outside this property",
    "the numeric behaviour of NtpDuration::from_seconds for finite non-negative input (saturation) is value-level, decided under C32",
]
VIS = r'<<ntp_proto::config::%s as serde_core::de::Deserialize<\'de>>::deserialize::%sVisitor as serde_core::de::Visitor<\'(de|_)>>::%s$'
NONNEG = lambda x: any_of(fact_cmp('Ge', '^%s$' % re.escape(x), r'^-?0\.0$'), fact_cmp('Gt', '^%s$' % re.escape(x), r'^-?0\.0$'),
                          fact_call(r'f64::is_sign_negative$', False, ['^%s$' % re.escape(x)]))
NOTNAN = lambda x: any_of(fact_call(r'f64::is_nan$', False, ['^%s$' % re.escape(x)]), fact_call(r'f64::is_finite$', True, ['^%s$' % re.escape(x)]))


def classify(ctx, b, s, t, key):
    v = S(t)
    if v in ('Option::None{}', 'Option::default()'):
        return 'none'
    m = re.match(r'^Option::Some\{0: NtpDuration::from_seconds\((.*)\)\}$', v)
    if m:
        x = m.group(1)
        if re.match(r'^\d+(\.\d*)?$', x):
            return 'literal'
        ok1 = b.must_pass(s.bb, NOTNAN(x))
        ok2 = b.must_pass(s.bb, NONNEG(x))
        ctx.check(key + '|not-nan', ok1, 'threshold built from `%s` is not dominated by a NaN rejection' % x, s.where(), found=b.guard_strings(s.bb))
        ctx.check(key + '|non-negative', ok2, 'threshold built from `%s` is not dominated by a sign test against 0.0' % x, s.where(), found=b.guard_strings(s.bb))
        return 'guarded'
    m = re.match(r'^Option::flatten\(\w+\{Option::None\{\} \| Option::Some\{0: \(Result::branch\(MapAccess::next_value\(map\)\) as Continue\)\.0\.0\}\}\)$', v)
    if m:
        # the values taken from the map are deserialised as ThresholdPart: the user locals holding a next_value result (found by definition, not by name)
        raw = [l['ty'] for i, l in enumerate(b.locals) if l.get('user') and l.get('name') and i > b.arg_count and
               re.match(r'^\(Result::branch\(MapAccess::next_value\(map\)\) as Continue\)\.0$', S(b.local_term(i)))]
        ctx.check(key + '|part-type', raw and all(re.search(r'config::ThresholdPart$', t) for t in raw),
                  'per-direction value is deserialised as %s, not ThresholdPart' % raw, s.where(), sample=raw)
        return 'part'
    ctx.check(key + '|form', False, 'threshold field initialised with an unrecognised form: %s' % v, s.where(), found=v)
    return 'other'


def r1(ctx):
    ctx.rule('C39-R1', 'every initialiser of StepThreshold.forward/backward and ThresholdPart.0 in the workspace is None/default, a non-negative float '
             'literal, from_seconds(x) dominated by !is_nan(x) and x >= 0.0, or the flattened payload of a ThresholdPart from next_value; '
             'no later writes to those fields')
    P = ctx.P
    forms = {}
    for adt, fields in ((r'config::StepThreshold$', ('forward', 'backward')), (r'config::.*ThresholdPart$', ('0',))):
        for fld in fields:
            for b, s, t in field_inits(P, adt, fld):
                key = '%s|%s|%s' % (b.npath.split('::')[-1] if '<' not in b.npath else re.sub(r'.*deserialize::(\w+) as .*::(\w+)$', r'\1::\2', b.npath) if 'Visitor' in b.npath else b.npath, site_desc(b, s), fld)
                f = classify(ctx, b, s, t, key)
                forms[f] = forms.get(f, 0) + 1
    ctx.check('forms|guarded', forms.get('guarded', 0) >= 3, 'guarded numeric initialisers found: %s' % forms, sample=forms)
    ctx.check('forms|part', forms.get('part', 0) == 2, 'per-direction initialisers found: %s' % forms, sample=forms)
    for fld in ('forward', 'backward', '0'):
        adt = r'config::.*ThresholdPart$' if fld == '0' else r'config::StepThreshold$'
        ws = [(b, s) for b, s in P.field_writers(fld, adt)]
        ctx.check('writers|%s' % fld, not ws, 'field %s written after construction in %s' % (fld, [b.npath for b, _ in ws]), sample=len(ws))


def r2(ctx):
    ctx.rule('C39-R2', 'visit_i64 and visit_u64 of ThresholdPartVisitor and StepThresholdVisitor return self.visit_f64(v as f64) of the same visitor, '
             'so integers go through the same validation')
    P = ctx.P
    for ty in ('ThresholdPart', 'StepThreshold'):
        f64b = one([x for x in P.bodies.values() if x.raw['promoted'] is None and re.search(VIS % (ty, ty, 'visit_f64'), x.path)], '%sVisitor::visit_f64' % ty)
        for m in ('visit_i64', 'visit_u64'):
            b = one([x for x in P.bodies.values() if x.raw['promoted'] is None and re.search(VIS % (ty, ty, m), x.path)], '%sVisitor::%s' % (ty, m))
            cs = b.calls()
            ok = len(cs) == 1 and re.search(r'Visitor::visit_f64$', b.callee(cs[0])['def']) is not None and [S(a) for a in b.call_args(cs[0])] == ['self', '(v as f64)']
            ctx.check('%s|%s|delegates' % (ty, m), ok, '%s does not simply delegate to visit_f64(v as f64): calls %s' % (m, [b.callee(c)['def'] for c in cs]), sample=ok)
            rets = [v for _, v in ret_assigns(b)]
            ctx.check('%s|%s|returns-delegate' % (ty, m), len(rets) == 1 and re.search(r'Visitor>?::visit_f64\(self, \(v as f64\)\)$', rets[0]) is not None, 'returns %s' % rets, sample=rets)
            tgt = [P.bodies[c[0]].path for c in P.callgraph().get(b.id, ()) if c[0] in P.bodies]
            ctx.check('%s|%s|same-visitor' % (ty, m), f64b.path in tgt, 'visit_f64 resolves to %s' % [t[-60:] for t in tgt], sample=len(tgt))


def r3(ctx):
    panic.property_rule(ctx, 'C39', 'C39-R3')


RULES = [r1, r2, r3]
FLOORS = {'C39-R1': 12, 'C39-R2': 12}
