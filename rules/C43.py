"""C43 — the PTP clock controller reports and steers consistently (structural part)."""
import re
from engine.rulelib import *
from engine.core import short_name
from engine.run import site_desc

EXPLANATION = (
    "WHO/FLOW rules over statime-algo: (R1) delegation agreement — KalmanController::clock_offset / clock_frequency call the LinkFilter "
    "method of the same name, which calls the EstimatorState method of the same name, which reads the ClockInfo index of that quantity "
    "(offset_index = base_index, frequency_index = base_index + 1) in both the state vector and the covariance diagonal; (R2) in "
    "steer_clocks the only Clock::set_frequency call receives f64::clamp(wanted, -max, max) with max the successful result of "
    "max_frequency() of the same clock; (R3) pairing — every path from set_frequency(a) to a successful return passes "
    "absorb_frequency_steer(same id, a - cur) with cur = get_frequency() of the same clock read before the change, and every path from "
    "step_clock(d) passes absorb_system_clock_offset_change(id, d) for the system clock (index 0) or absorb_offset_change(id, d in "
    "seconds) otherwise, with d = -offset of that clock; the absorbed filter is what is stored back; (R4) the absorb_* operations add "
    "exactly the applied change to the state entry of that clock and quantity (frequency_index / offset_index) and change nothing else "
    "(the system-clock variant also advances the filter time by the step)."
    " The estimator's index bookkeeping (C42-R3/R4) is evaluated here too: a query reads a clock's estimate through its base index."
)
NOT_DECIDED = [
    "floating-point rounding of the addition that absorbs the applied change is not decided (R4 decides that the applied change is what is added, to the entry of that clock and quantity)",
    "whether Clock implementations apply exactly the requested frequency/step is outside the workspace",
]
A = 'statime_algo::'
ELEM = r'\(Enumerate::next\(I::into_iter\(Iterator::enumerate\(slice::iter_mut\(DerefMut::deref_mut\(self\.clocks\)\)\)\)\) as Some\)\.0\.1'


def r1(ctx):
    ctx.rule('C43-R1', 'delegation agreement: KalmanController::clock_Q -> LinkFilter::clock_Q -> EstimatorState::clock_Q -> ClockInfo::Q_index for Q in {offset, frequency}; '
             'the two query chains never cross')
    P = ctx.P
    for q in ('offset', 'frequency'):
        name = 'clock_' + q
        top = P.body(A + 'KalmanController::%s::{closure#0}' % name)
        cs = [short_name(top.callee(c)['def']) for c in top.calls(r'LinkFilter::clock_\w+$')]
        ctx.check('KalmanController::%s|delegates' % name, cs == ['LinkFilter::' + name], 'KalmanController::%s calls %s' % (name, cs), sample=cs)
        rets = [v for _, v in ret_assigns(top)]
        ctx.check('KalmanController::%s|returns' % name, rets == ['LinkFilter::%s(state.filter, clock_id)' % name], 'returns %s' % rets, sample=rets)
        outer = P.body(A + 'KalmanController::' + name)
        wr = [short_name(outer.callee(c)['def']) for c in outer.calls(r'StateMutex::with_\w+$')]
        ctx.check('KalmanController::%s|with_ref' % name, wr == ['StateMutex::with_ref'], 'state accessed through %s' % wr, sample=wr)
        mid = P.body(A + 'filter::LinkFilter::' + name)
        cs = [short_name(mid.callee(c)['def']) for c in mid.calls(r'EstimatorState::clock_\w+$')]
        ctx.check('LinkFilter::%s|delegates' % name, cs == ['EstimatorState::' + name], 'LinkFilter::%s calls %s' % (name, cs), sample=cs)
        low = P.body(A + 'estimator::EstimatorState::' + name)
        used = sorted({short_name(low.callee(c)['def']) for c in low.calls(r'ClockInfo::\w+_index$')})
        ctx.check('EstimatorState::%s|index' % name, used == ['ClockInfo::%s_index' % q], 'EstimatorState::%s reads %s' % (name, used), sample=used)
        okv = [v for _, v in ret_assigns(low) if v.startswith('Result::Ok')]
        idx = r'ClockInfo::%s_index\(\(Result::branch\(EstimatorState::get_clock_info\(self, id\)\) as Continue\)\.0\)' % q
        pat = r'^Result::Ok\{0: UncertainValue\{value: \*?Matrix::index\(self\.state, \(%s, 0\)\), uncertainty: f64::sqrt\(\*?Matrix::index\(self\.uncertainty, \(%s, %s\)\)\)\}\}$' % (idx, idx, idx)
        ctx.check('EstimatorState::%s|reads-own-entry' % name, len(okv) == 1 and re.match(pat, okv[0]) is not None, 'returns %s' % [v[:220] for v in okv], sample=len(okv))
    for fn, want in (('offset_index', 'self.base_index'), ('frequency_index', '(self.base_index + 1)')):
        rets = [v for _, v in ret_assigns(P.body(A + 'estimator::ClockInfo::' + fn))]
        ctx.check('ClockInfo::%s' % fn, rets == [want], 'returns %s' % rets, sample=rets)


def r2(ctx):
    ctx.rule('C43-R2', 'steer_clocks: the only set_frequency call site of the crate receives f64::clamp(wanted, -max, max), max = Ok payload of max_frequency() of the same clock')
    P = ctx.P
    b = P.body(A + 'steer_clocks')
    allset = [(x.npath, c) for x in P.bodies_matching(r'^<?statime_algo::') for c in x.calls(r'Clock::set_frequency$')]
    ctx.check('set_frequency|one-site', len(allset) == 1 and allset[0][0] == A + 'steer_clocks', 'set_frequency call sites: %s' % [p for p, _ in allset], sample=len(allset))
    for _, c in allset:
        recv, arg = [S(a) for a in b.call_args(c)]
        ctx.check('set_frequency|receiver', re.match('^%s\\.clock$' % ELEM, recv) is not None, 'receiver %s' % recv[-60:], c.where(), sample=recv[-40:])
        mx = r'\(Result::branch\(Clock::max_frequency\(%s\.clock\)\) as Continue\)\.0' % ELEM
        ok = re.match(r'^f64::clamp\((.*), -\(%s\), %s\)$' % (mx, mx), arg) is not None
        ctx.check('set_frequency|clamped-to-max', ok, 'set_frequency argument is %s' % N(b.call_args(c)[1])[:200], c.where(), sample=N(b.call_args(c)[1])[:120])
        ctx.guard(b, c, 'max-known', fact_is(r'^Result::branch\(Clock::max_frequency\(%s\.clock\)\)$' % ELEM, 'Continue'), key='set_frequency|max_frequency-ok')


def passes_before_ok(b, start_bb, via_bbs):
    """Every path from start_bb to a successful return goes through one of via_bbs."""
    oks = [s.bb for s, v in ret_assigns(b) if v.startswith('Result::Ok')]
    via = set(via_bbs)
    seen = b.reachable_avoiding(None, start=start_bb, blocked_block=lambda x: x in via)
    return bool(oks) and bool(via) and not any(o in seen for o in oks)


def r3(ctx):
    ctx.rule('C43-R3', 'pairing in steer_clocks: set_frequency(a) is followed on every successful path by absorb_frequency_steer(same id, a - cur), cur = get_frequency() of the same clock; '
             'step_clock(from_f64_seconds(-offset)) by absorb_system_clock_offset_change(id, same duration) when index == 0 else absorb_offset_change(id, -offset)')
    P = ctx.P
    b = P.body(A + 'steer_clocks')
    idt = '^%s\\.id$' % ELEM
    off = r'\(Result::branch\(LinkFilter::clock_offset\(self\.filter, %s\.id\)\) as Continue\)\.0\.value' % ELEM
    sf = one(b.calls(r'Clock::set_frequency$'), 'set_frequency')
    a = S(b.call_args(sf)[1])
    ab = b.calls(r'LinkFilter::absorb_frequency_steer$')
    ctx.check('absorb_frequency_steer|one-site', len(ab) == 1, 'sites: %d' % len(ab), sample=len(ab))
    for c in ab:
        args = [S(x) for x in b.call_args(c)]
        cur = r'\(Result::branch\(Clock::get_frequency\(%s\.clock\)\) as Continue\)\.0' % ELEM
        ctx.check('absorb_frequency_steer|same-clock', re.match(idt, args[1]) is not None, 'absorbs for %s' % args[1][-40:], c.where(), sample=args[1][-30:])
        ok = args[2].startswith('(' + a + ' - ') and re.match('^%s\\)$' % cur, args[2][len(a) + 4:]) is not None
        ctx.check('absorb_frequency_steer|applied-change', ok, 'absorbed change is %s' % N(b.call_args(c)[2])[:160], c.where(), sample=N(b.call_args(c)[2])[:100])
        ctx.guard(b, c, 'set-ok', fact_is(r'^Result::branch\(Clock::set_frequency\(', 'Continue'), key='absorb_frequency_steer|after-set_frequency-ok')
        gf = one(b.calls(r'Clock::get_frequency$'), 'get_frequency')
        ctx.check('get_frequency|before-set', blocks_must_pass_block(b, sf.bb, [gf.bb]), 'current frequency is not read before the change', gf.where(), sample=True)
    ctx.check('set_frequency|always-absorbed', passes_before_ok(b, sf.bb, [c.bb for c in ab]), 'a successful return is reachable after set_frequency without absorb_frequency_steer', sf.where(), sample=len(ab))
    st = one(b.calls(r'Clock::step_clock$'), 'step_clock')
    d = S(b.call_args(st)[1])
    ctx.check('step_clock|argument', re.match(r'^Duration::from_f64_seconds\(-\(%s\)\)$' % off, d) is not None, 'step is %s' % N(b.call_args(st)[1]), st.where(), sample=N(b.call_args(st)[1]))
    ctx.check('step_clock|receiver', re.match('^%s\\.clock$' % ELEM, S(b.call_args(st)[0])) is not None, 'receiver %s' % S(b.call_args(st)[0])[-50:], st.where(), sample=True)
    sysc = b.calls(r'LinkFilter::absorb_system_clock_offset_change$')
    oth = b.calls(r'LinkFilter::absorb_offset_change$')
    ctx.check('absorb-offset|sites', len(sysc) == 1 and len(oth) == 1, 'absorb_system_clock_offset_change sites %d, absorb_offset_change sites %d' % (len(sysc), len(oth)), sample=[len(sysc), len(oth)])
    for c in sysc:
        args = [S(x) for x in b.call_args(c)]
        ctx.check('absorb_system_clock_offset_change|same-clock', re.match(idt, args[1]) is not None, 'absorbs for %s' % args[1][-40:], c.where(), sample=True)
        ctx.check('absorb_system_clock_offset_change|same-step', args[2] == d, 'absorbed %s, stepped %s' % (N(b.call_args(c)[2]), N(b.call_args(st)[1])), c.where(), sample=N(b.call_args(c)[2]))
        ctx.guard(b, c, 'system-clock', fact_cmp('Eq', '^' + ELEM[:-len(r'\.1')] + r'\.0$', r'^0$'), key='absorb_system_clock_offset_change|index==0')
        ctx.guard(b, c, 'step-ok', fact_is(r'^Result::branch\(Clock::step_clock\(', 'Continue'), key='absorb_system_clock_offset_change|after-step-ok')
    for c in oth:
        args = [S(x) for x in b.call_args(c)]
        ctx.check('absorb_offset_change|same-clock', re.match(idt, args[1]) is not None, 'absorbs for %s' % args[1][-40:], c.where(), sample=True)
        ctx.check('absorb_offset_change|same-step', re.match(r'^-\(%s\)$' % off, args[2]) is not None, 'absorbed %s' % N(b.call_args(c)[2]), c.where(), sample=N(b.call_args(c)[2]))
        ctx.guard(b, c, 'other-clock', fact_cmp('Ne', '^' + ELEM[:-len(r'\.1')] + r'\.0$', r'^0$'), key='absorb_offset_change|index!=0')
        ctx.guard(b, c, 'step-ok', fact_is(r'^Result::branch\(Clock::step_clock\(', 'Continue'), key='absorb_offset_change|after-step-ok')
    ctx.check('step_clock|always-absorbed', passes_before_ok(b, st.bb, [c.bb for c in sysc + oth]), 'a successful return is reachable after step_clock without absorbing the offset change', st.where(), sample=len(sysc) + len(oth))
    # index 0 is the system clock: new() pushes it first and remove_clock refuses clocks[0]
    rm = P.body(A + 'KalmanController::remove_clock::{closure#0}')
    errs = [(s, v) for s, v in ret_assigns(rm) if v.startswith('Result::Err{0: AlgoError::CannotRemoveSystemClock')]
    ctx.check('system-clock|index0-kept', len(errs) == 1 and rm.must_pass(errs[0][0].bb, fact_cmp('Eq', r'^Deref::deref\(state\.clocks\)\[0\]\.id$', r'^clock_id$')), 'remove_clock does not protect clocks[0]', sample=len(errs))
    # the stepped/steered filter is what is stored
    ws = b.field_writes('filter', r'KalmanControllerState')
    ctx.check('filter|stored-once', len(ws) == 1, 'writes of self.filter in steer_clocks: %d' % len(ws), sample=len(ws))
    for s in ws:
        ctx.check('filter|stored-is-absorbed', re.match(r'^\w+\{', N(b.rvalue_term(s.data['rv']))) is not None and re.search(r'absorb_frequency_steer', written_value(b, s)) is not None and re.search(r'absorb_offset_change', written_value(b, s)) is not None,
                  'self.filter = %s' % N(b.rvalue_term(s.data['rv'])), s.where(), sample=N(b.rvalue_term(s.data['rv'])))


def r4(ctx):
    ctx.rule('C43-R4', 'what absorbing does to the estimate: EstimatorState::absorb_frequency_steer adds frequency_change to the state entry at frequency_index of the steered clock, '
             'absorb_offset_change adds offset_change at offset_index, absorb_system_clock_offset_change adds offset_change.as_seconds() at offset_index and advances the filter time by '
             'offset_change; nothing else is written; LinkFilter::absorb_* delegate to the estimator method of the same name with the same arguments')
    P = ctx.P
    ES = A + 'estimator::EstimatorState::'
    info = r'\(Result::branch\(EstimatorState::get_clock_info\(self, steered_clock\)\) as Continue\)\.0'
    for name, idx, arg, val in (('absorb_frequency_steer', 'frequency_index', 'frequency_change', 'frequency_change'),
                                ('absorb_offset_change', 'offset_index', 'offset_change', 'offset_change'),
                                ('absorb_system_clock_offset_change', 'offset_index', 'offset_change', 'Duration::as_seconds(offset_change)')):
        b = P.body(ES + name)
        params = [l.get('name') for l in b.locals[1:4]]
        ctx.check('%s|params' % name, params == ['self', 'steered_clock', arg], 'parameters %s' % params, sample=params)
        dw = deref_writes(b)
        ctx.check('%s|one-entry-written' % name, len(dw) == 1, 'state entries written: %d' % len(dw), sample=len(dw))
        for s, t, v in dw:
            want_t = r'^Matrix::index_mut\(self\.state, \(ClockInfo::%s\(%s\), 0\)\)$' % (idx, info)
            ctx.check('%s|entry' % name, re.match(want_t, t) is not None, 'writes %s' % t[:160], s.where(), sample=t[:120])
            ctx.check('%s|adds-applied-change' % name, v == '(%s + %s)' % (t, val), 'new value %s' % v[-120:], s.where(), sample=v[-80:])
        other = [f for f in ('uncertainty', 'clock_info', 'external_clocks', 'link_info') if b.field_writes(f, r'estimator::EstimatorState')]
        ctx.check('%s|nothing-else-written' % name, not other, 'also writes %s' % other, sample=other)
        tw = b.calls(r'AddAssign::add_assign$')
        if name == 'absorb_system_clock_offset_change':
            ok = len(tw) == 1 and [S(a) for a in b.call_args(tw[0])] == ['self.time', 'offset_change']
            ctx.check('%s|time-advanced' % name, ok, 'time update: %s' % [[S(a) for a in b.call_args(c)] for c in tw], sample=len(tw))
        else:
            ctx.check('%s|time-untouched' % name, not tw and not [s for s in b.field_writes('time', r'estimator::EstimatorState')], 'filter time is modified', sample=len(tw))
        oks = [v for _, v in ret_assigns(b) if v.startswith('Result::Ok')]
        ctx.check('%s|returns-self' % name, oks == ['Result::Ok{0: self}'], 'returns %s' % oks, sample=oks)
        lf = P.body(A + 'filter::LinkFilter::' + name)
        cs = lf.calls(r'EstimatorState::absorb_\w+$')
        ok = len(cs) == 1 and short_name(lf.callee(cs[0])['def']) == 'EstimatorState::' + name and [N(a) for a in lf.call_args(cs[0])] == ['self.estimation_state', 'steered_clock', arg]
        ctx.check('LinkFilter::%s|delegates' % name, ok, 'calls %s' % [(short_name(lf.callee(c)['def']), [N(a) for a in lf.call_args(c)]) for c in cs], sample=ok)
        ws = [written_value(lf, s) for s in lf.field_writes('estimation_state', r'filter::LinkFilter') if s.kind == 'assign']
        ctx.check('LinkFilter::%s|stores-result' % name, len(ws) == 1 and re.match(r'^\(Result::branch\(EstimatorState::%s\(self\.estimation_state, steered_clock, %s\)\) as Continue\)\.0$' % (name, arg), ws[0]) is not None,
                  'estimation_state = %s' % ws, sample=len(ws))


def r5(ctx):
    # the frequency/offset a query reports for a clock is read through that clock's base index: the index bookkeeping of the estimator
    # (shifts on removal by the removed entry's own size, new index = state.rows()) is therefore part of "reports the estimate of this clock"
    from rules import C42
    C42.r3(ctx)
    C42.r4(ctx)


RULES = [r1, r2, r3, r4, r5]
FLOORS = {'C43-R1': 12, 'C43-R2': 4, 'C43-R3': 20, 'C43-R4': 24, 'C42-R3': 45, 'C42-R4': 14}
