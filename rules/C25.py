"""C25 — tampered NTS packets are never accepted as authentic (structural part)."""
import re
from engine.rulelib import *
from engine.run import site_desc

EXPLANATION = (
    "FLOW/GUARD rules: the associated data handed to RawEncryptedField::decrypt is data[..header_size + offset] with offset "
    "the streamer offset of the authenticator field (the whole datagram from byte 0 up to that field); AesSivCmac256/512 pass "
    "[associated_data, nonce] as SIV headers on both encrypt and decrypt, and decrypt the given ciphertext; fields are "
    "promoted to authenticated/encrypted and a cookie is retained only on the Ok edge of decrypt, a failure marks the packet "
    "invalid (Err(DecryptError)); KeySet::get yields no cipher for a second cookie or a cookie that fails to decode."
    " RawEncryptedField::decrypt reports success only past a successful cipher.decrypt, and the AES-SIV impls return the primitive's verdict."
)
NOT_DECIDED = ["the security of AES-SIV itself", "bit-level boundary behaviour of the authenticator's own padding bytes"]
EF = 'ntp_proto::packet::extension_fields'
CR = 'ntp_proto::packet::crypto'


def r1(ctx):
    ctx.rule('C25-R1', 'ExtensionFieldData::deserialize: decrypt(cipher.as_ref(), &data[..header_size + offset], version) where offset is the offset '
             'yielded by the field streamer for that field; the streamed buffer is data[header_size..]; nonce and ciphertext come from the '
             'field\'s own message bytes')
    b = ctx.P.body(EF + '::ExtensionFieldData::deserialize')
    d = one(b.calls(r'RawEncryptedField::decrypt$'), 'decrypt call')
    a = [S(x) for x in b.call_args(d)]
    # item = the (offset, field) pair yielded by the field streamer over data[header_size..], in expanded form
    m = re.match(r'^index::index\(data, RangeTo\{end: \(header_size \+ (?P<item>\(Result::branch\(.*ExtensionFieldStreamer::next\(.*\) as Continue\)\.0)\.0\)\}\)$', a[2], re.S)
    ctx.check('deserialize|aad', m is not None, 'associated data is `%s ... %s`' % (a[2][:80], a[2][-80:]), d.where(), sample=a[2][:60])
    item = m.group('item') if m else ''
    ctx.check('deserialize|offset-from-streamer', 'deserialize_sequence(index::index(data, RangeFrom{start: header_size})' in item,
              'the offset does not come from the streamer over data[header_size..]: `%s`' % item[-160:], sample=item[-100:])
    ctx.check('deserialize|cipher-arg', 'cipher' in a[1], 'cipher argument `%s`' % a[1][:120], d.where(), sample=a[1][:80])
    fm = one(b.calls(r'RawEncryptedField::from_message_bytes$'), 'from_message_bytes')
    got = S(b.call_args(fm)[0])
    ctx.check('deserialize|encrypted-from-field', bool(item) and got == item + '.1.message_bytes', 'authenticator parsed from `%s`' % got[-120:], fm.where(), sample=got[-60:])
    ctx.guard(b, fm, 'field-is-authenticator', lambda f: bool(item) and (lambda c: c is not None and c[0] == 'Eq' and S(c[1]) == item + '.1.type_id' and 'NtsEncryptedField' in S(c[2]))(cmp_of(f)),
              key='deserialize|from_message_bytes|type')
    dec = ctx.P.body(EF + '::RawEncryptedField::decrypt')
    c = one(dec.calls(r'Cipher::decrypt$'), 'cipher.decrypt in RawEncryptedField::decrypt')
    a = [S(x) for x in dec.call_args(c)]
    ctx.check('RawEncryptedField::decrypt|args', a[1:] == ['self.nonce', 'self.ciphertext', 'aad'], 'cipher.decrypt(%s)' % a[1:], c.where(), sample=a[1:])
    # nothing is reported as decrypted (Ok) unless the AEAD call itself succeeded: every non-Err result of RawEncryptedField::decrypt lies past
    # `cipher.decrypt(..) is Ok`, and the cipher implementations return the AEAD primitive's own verdict
    aead_ok = fact_is(r'^Cipher::decrypt\(cipher, self\.nonce, self\.ciphertext, aad\)$', 'Ok')
    outs = [(s, v) for s, v in ret_assigns(dec) if not v.startswith('Result::Err')]
    ctx.check('RawEncryptedField::decrypt|ok-sites', len(outs) >= 1, 'no success result found', sample=len(outs))
    for s, v in outs:
        ctx.guard(dec, s, 'aead-verified', aead_ok, key='RawEncryptedField::decrypt|Ok|aead-verified',
                  msg='RawEncryptedField::decrypt can report success (`%s`) without a successful cipher.decrypt: content is treated as authenticated although the AEAD tag was never checked' % v[:60])
    for w in ('256', '512'):
        cd = ctx.P.body('<%s::AesSivCmac%s as %s::Cipher>::decrypt' % (CR, w, CR))
        rv = [v for _, v in ret_assigns(cd)]
        ctx.check('AesSivCmac%s|decrypt|verdict-of-siv' % w, len(rv) == 1 and re.match(r'^Result::map_err\(Siv::decrypt\(Siv::new\(self\.key\), \[associated_data, nonce\], ciphertext\), ', rv[0]) is not None,
                  'AesSivCmac%s::decrypt returns %s' % (w, [x[:100] for x in rv]), sample=[x[:80] for x in rv])


def r2(ctx):
    ctx.rule('C25-R2', 'AesSivCmac256/512: decrypt = siv.decrypt([associated_data, nonce], ciphertext); encrypt = siv.encrypt_in_place([associated_data, '
             '&nonce], ..) (same header order on both sides, both ciphers)')
    P = ctx.P
    for w in ('256', '512'):
        d = P.body('<%s::AesSivCmac%s as %s::Cipher>::decrypt' % (CR, w, CR))
        c = some(d.calls(r'::decrypt$'), 'siv.decrypt')
        hdr = [S(d.call_args(x)[1]) for x in c]
        ct = [S(d.call_args(x)[2]) for x in c]
        ctx.check('AesSivCmac%s|decrypt-headers' % w, hdr == ['[associated_data, nonce]'] and ct == ['ciphertext'], 'decrypt headers %s ciphertext %s' % (hdr, ct), sample=[hdr, ct])
        e = P.body('<%s::AesSivCmac%s as %s::Cipher>::encrypt' % (CR, w, CR))
        c = some(e.calls(r'::encrypt_in_place$'), 'siv.encrypt_in_place')
        hdr = [S(e.call_args(x)[1]) for x in c]
        ok = len(hdr) == 1 and re.match(r'^\[associated_data, Rng::r#gen\(thread::thread_rng\(\)\)\]$|^\[associated_data, .*nonce.*\]$', hdr[0]) is not None
        ctx.check('AesSivCmac%s|encrypt-headers' % w, ok, 'encrypt headers %s' % hdr, sample=hdr)
        n = [x for x in e.calls(r'crypto::prepend_slice$')]
        ctx.check('AesSivCmac%s|nonce-prepended' % w, len(n) == 1 and 'Rng::r#gen' in S(e.call_args(n[0])[2]), 'nonce handling changed', sample=[S(e.call_args(x)[2]) for x in n])


def r3(ctx):
    ctx.rule('C25-R3', 'authenticated.append(&mut untrusted), encrypted.extend(..) and the cookie assignment happen only on the Ok edge of decrypt; '
             'a missing cipher or a decrypt failure sets is_valid_nts = false; the function returns Ok only with is_valid_nts true')
    b = ctx.P.body(EF + '::ExtensionFieldData::deserialize')
    ok = fact_is(r'^RawEncryptedField::decrypt\(', 'Ok')
    # the two mutable locals of the loop are found by type, not by name: the cookie slot (Option<DecodedServerCookie>) and the validity flag (the bool set to false)
    cookie_l = {i for i, l in enumerate(b.locals) if l.get('user') and 'DecodedServerCookie' in l['ty'] and l['ty'].startswith('core::option::Option<')}
    flag_l = set(flag_locals(b))
    sites = [s for s in b.calls(r'Vec::append$|Extend::extend$')] + [s for s in b.assigns(lambda pl: not pl['p']) if s.kind == 'assign' and s.data['place']['l'] in cookie_l
                                                                    and 'Option::None' != written_value(b, s)[:12]]
    n = 0
    for s in sites:
        v = written_value(b, s) if s.kind == 'assign' else ''
        if s.kind == 'assign' and v.startswith('Option::None{}') and not b.must_pass(s.bb, fact_is(r'CipherProvider::get\(', 'Some')):
            continue
        n += 1
        ctx.guard(b, s, 'decrypt-ok', ok, key='deserialize|%s|decrypt-ok' % site_desc(b, s))
    ctx.check('deserialize|promotion-sites', n >= 3, 'promotion sites found: %d' % n, sample=n)
    falses = [s for s in b.assigns(lambda pl: not pl['p']) if s.kind == 'assign' and s.data['place']['l'] in flag_l and written_value(b, s) == '0']
    conds = []
    for s in falses:
        if b.must_pass(s.bb, fact_is(r'CipherProvider::get\(', 'None')):
            conds.append('no-cipher')
        elif b.must_pass(s.bb, fact_is(r'^RawEncryptedField::decrypt\(', 'Err')):
            conds.append('decrypt-err')
        else:
            conds.append('other')
    ctx.check('deserialize|invalid-marking', sorted(conds) == ['decrypt-err', 'no-cipher'], 'is_valid_nts=false sites: %s' % conds, sample=conds)
    # the failure branch `continue`s: no path from a failure marking to a promotion site without passing decrypt again
    d = one(b.calls(r'RawEncryptedField::decrypt$'), 'decrypt call')
    for f in falses:
        for s in sites:
            ctx.check('deserialize|%s->%s|needs-new-decrypt' % (conds[falses.index(f)], site_desc(b, s)), must_pass_block_from(b, f.bb, s.bb, [d.bb]),
                      'after a failed authentication fields can be promoted without another successful decrypt', s.where())
    lit = one(b.aggregates(r'DeserializedExtensionField$'), 'Ok literal')
    fl = one(sorted(set(flag_locals(b).values())), 'the validity flag of ExtensionFieldData::deserialize')
    ctx.guard(b, lit, 'valid', lambda f: f.kind == 'bool' and f.pol and re.match(r'^%s\b' % re.escape(fl), tstr(f.term)) is not None, key='deserialize|Ok|valid')


def r4(ctx):
    ctx.rule('C25-R4', 'KeySet::get (cipher for server-side decryption): returns None on a second cookie in the request and when decode_cookie fails')
    b = ctx.P.body('<ntp_proto::keyset::KeySet as ntp_proto::packet::crypto::CipherProvider>::get')
    nones = [(s, v) for s, v in ret_assigns(b) if v.startswith('Option::None') or 'from_residual' in v]
    second = [s for s, v in nones if b.must_pass(s.bb, fact_call(r'Option::is_some$', True)) or b.must_pass(s.bb, fact_is(r'^\w+\{.*Option::Some\{0: .*KeySet::decode_cookie\(', 'Some'))]   # the accumulator that holds an earlier decoded cookie
    ctx.check('KeySet::get|second-cookie-aborts', len(second) >= 1, 'a second cookie no longer aborts the lookup', sample=[v[:60] for _, v in nones])
    dc = one(b.calls(r'KeySet::decode_cookie$'), 'decode_cookie')
    ctx.guard(b, dc, 'field-is-cookie', fact_is(r'.', ['NtsCookie']), key='KeySet::get|decode|cookie-field')
    fails = [s for s, v in nones if 'from_residual' in v or b.must_pass(s.bb, fact_is(r'Result::ok\(KeySet::decode_cookie|Option::branch\(Result::ok\(KeySet::decode_cookie', ['None', 'Break']))]
    ctx.check('KeySet::get|decode-failure-none', len(fails) >= 1, 'decode failure does not yield None', sample=[v[:80] for _, v in nones])
    rets = [v for _, v in ret_assigns(b)]
    ctx.check('KeySet::get|result', any('CipherHolder::DecodedServerCookie' in v for v in rets), 'result forms %s' % [v[:80] for v in rets], sample=[v[:100] for v in rets])


RULES = [r1, r2, r3, r4]
FLOORS = {'C25-R1': 10, 'C25-R2': 6, 'C25-R3': 8, 'C25-R4': 4}
