"""C18 — server answers echo the request correctly and reflect nothing else."""
import re

from engine.rulelib import *
from engine.run import site_desc

EXPLANATION = (
    "FLOW/TABLE/PRED/WHO rules: field-provenance matrix of every header response builder (which request field may flow "
    "into which response field; mode/stratum/kiss constants; server data from server_info; reception time from "
    "recv_timestamp), extension-field pipelines of every packet response builder (each request list passes a filter "
    "closure that keeps only UniqueIdentifier, plus ReferenceIdRequest->to_response in NTPv5 time answers; the only "
    "constant added is the NTPv5 draft identification), the encrypted request list is read only by the NTS cookie "
    "closure, each NtpHeader::Vn arm builds NtpHeader::Vn, and the decrypt-error packet carries no plaintext."
)
NOT_DECIDED = ["numeric content of server_info (C33)", "cryptographic protection of the answer (C19/C25)"]

PKT = 'ntp_proto::packet::NtpPacket'
H4 = 'ntp_proto::packet::NtpHeaderV3V4'
H5 = 'ntp_proto::packet::v5::NtpHeaderV5'


def ret_fields(b):
    """field -> expanded string for the (single) struct literal returned by a header builder."""
    rets = [s for s in b.assigns(lambda pl: pl['l'] == 0 and not pl['p']) if s.kind == 'assign' and s.data['rv']['k'] == 'agg']
    s = one(rets, 'returned struct literal of %s' % b.npath)
    rv = s.data['rv']
    return {n: S(b.operand_term(o)) for n, o in zip(rv['fields'], rv['ops'])}, s


REQ = r'(?:input|packet_from_client)'


def r1(ctx):
    ctx.rule('C18-R1', 'header builders: only transmit_timestamp->origin_timestamp and poll->poll (V3/V4), client_cookie->client_cookie and '
             'poll->poll (force_inc for RATE) (V5) flow from the request; mode is Server/Response; time answers take stratum, leap, '
             'reference id, root delay/dispersion, precision from server_info and receive_timestamp from recv_timestamp; KISS answers '
             'have stratum 0 and no server timestamps')
    P = ctx.P
    exp4 = {
        'timestamp_response': {'origin_timestamp': 'input.transmit_timestamp', 'poll': 'input.poll'},
        'rate_limit_response': {'origin_timestamp': 'packet_from_client.transmit_timestamp'},
        'deny_response': {'origin_timestamp': 'packet_from_client.transmit_timestamp'},
        'nts_nak_response': {'origin_timestamp': 'packet_from_client.transmit_timestamp'},
    }
    kiss4 = {'rate_limit_response': 'KISS_RATE', 'deny_response': 'KISS_DENY', 'nts_nak_response': 'KISS_NTSN'}
    for fn, flows in exp4.items():
        b = P.body(H4 + '::' + fn)
        f, site = ret_fields(b)
        got = {k: v for k, v in f.items() if re.search(r'\b' + REQ + r'\b', v)}
        ctx.check('V3V4::%s|request-flows' % fn, got == flows, 'request fields flowing into the answer: %s' % got, site.where(), sample=got)
        ctx.check('V3V4::%s|mode' % fn, f.get('mode') == 'NtpAssociationMode::Server{}', 'mode is %s' % f.get('mode'), site.where(), sample=f.get('mode'))
        if fn == 'timestamp_response':
            want = {
                'stratum': 'server_info.ntp_snapshot.stratum', 'reference_id': 'server_info.ntp_snapshot.reference_id',
                'receive_timestamp': 'recv_timestamp', 'leap': 'server_info.time_snapshot.leap_indicator',
                'root_delay': 'server_info.time_snapshot.root_delay',
                'root_dispersion': 'TimeSnapshot::root_dispersion(server_info.time_snapshot, recv_timestamp)',
                'precision': 'NtpDuration::log2(server_info.time_snapshot.precision)',
                'transmit_timestamp': 'Result::expect(NtpClock::now(clock), "Failed to read time")',
            }
            bad = {k: f.get(k) for k, v in want.items() if f.get(k) != v}
            ctx.check('V3V4::timestamp_response|server-data', not bad, 'server data fields differ: %s' % bad, site.where(), sample={k: f.get(k) for k in want})
        else:
            ctx.check('V3V4::%s|kiss' % fn, f.get('stratum') == '0' and re.search(kiss4[fn], f.get('reference_id', '')) is not None,
                      'kiss answer has stratum %s, reference id %s' % (f.get('stratum'), f.get('reference_id')), site.where(),
                      sample=[f.get('stratum'), f.get('reference_id')])
            ts = {k: v for k, v in f.items() if k.endswith('_timestamp') and k != 'origin_timestamp'}
            ctx.check('V3V4::%s|no-server-timestamps' % fn, all(v.startswith('NtpHeaderV3V4::new().') for v in ts.values()),
                      'kiss answer carries timestamps: %s' % ts, site.where(), sample=ts)
    exp5 = {
        'timestamp_response': {'poll': 'input.poll', 'client_cookie': 'input.client_cookie'},
        'kiss_response': {'client_cookie': 'packet_from_client.client_cookie'},
    }
    for fn, flows in exp5.items():
        b = P.body(H5 + '::' + fn)
        f, site = ret_fields(b)
        got = {k: v for k, v in f.items() if re.search(r'\b' + REQ + r'\b', v)}
        ctx.check('V5::%s|request-flows' % fn, got == flows, 'request fields flowing into the answer: %s' % got, site.where(), sample=got)
        ctx.check('V5::%s|mode' % fn, f.get('mode') == 'NtpMode::Response{}', 'mode is %s' % f.get('mode'), site.where(), sample=f.get('mode'))
        if fn == 'timestamp_response':
            want = {
                'stratum': 'server_info.ntp_snapshot.stratum', 'receive_timestamp': 'recv_timestamp',
                'leap': 'server_info.time_snapshot.leap_indicator', 'root_delay': 'server_info.time_snapshot.root_delay',
                'root_dispersion': 'TimeSnapshot::root_dispersion(server_info.time_snapshot, recv_timestamp)',
                'precision': 'NtpDuration::log2(server_info.time_snapshot.precision)',
                'transmit_timestamp': 'Result::expect(NtpClock::now(clock), "Failed to read time")',
            }
            bad = {k: f.get(k) for k, v in want.items() if f.get(k) != v}
            ctx.check('V5::timestamp_response|server-data', not bad, 'server data fields differ: %s' % bad, site.where(), sample={k: f.get(k) for k in want})
        else:
            ctx.check('V5::kiss_response|stratum0', f.get('stratum') == '0', 'kiss stratum %s' % f.get('stratum'), site.where(), sample=f.get('stratum'))
            ts = {k: v for k, v in f.items() if k.endswith('_timestamp')}
            ctx.check('V5::kiss_response|no-server-timestamps', all(v.startswith('NtpHeaderV5::new().') for v in ts.values()),
                      'kiss answer carries timestamps: %s' % ts, site.where(), sample=ts)
    for fn, pollv in (('rate_limit_response', 'PollInterval::force_inc(packet_from_client.poll)'), ('deny_response', None), ('nts_nak_response', None)):
        b = P.body(H5 + '::' + fn)
        f, site = ret_fields(b)
        got = {k: v for k, v in f.items() if re.search(r'\b' + REQ + r'\b', v) and not v.startswith('NtpHeaderV5::kiss_response(packet_from_client).')}
        ctx.check('V5::%s|request-flows' % fn, got == ({'poll': pollv} if pollv else {}), 'request fields flowing directly: %s' % got, site.where(), sample=got)
        rest = {k: v for k, v in f.items() if k not in got and not v.startswith('NtpHeaderV5::kiss_response(packet_from_client).')}
        allowed = {'rate_limit_response': set(), 'deny_response': {'poll'}, 'nts_nak_response': {'flags'}}[fn]
        ctx.check('V5::%s|based-on-kiss_response' % fn, set(rest) <= allowed, 'fields not taken from kiss_response: %s' % rest, site.where(), sample=rest)
        if fn == 'deny_response':
            ctx.check('V5::deny_response|poll-never', re.search(r'NEVER', f.get('poll', '')) is not None, 'deny poll is %s' % f.get('poll'), site.where(), sample=f.get('poll'))
        if fn == 'nts_nak_response':
            ctx.check('V5::nts_nak_response|authnak', f.get('flags') == 'NtpFlags{synchronized: 0, interleaved_mode: 0, authnak: 1}', 'flags %s' % f.get('flags'), site.where(), sample=f.get('flags'))


def classify_closure(c):
    rets = ret_assigns(c)
    vals = [(v, c.guard_strings(s.bb), s) for s, v in rets]
    uid = lambda s: c.must_pass(s.bb, fact_is(r'.', ['UniqueIdentifier']))
    if all(v in ('0', '1') for v, _, _ in vals):
        if all(uid(s) for v, _, s in vals if v == '1') and any(v == '1' for v, _, _ in vals):
            return 'uid-filter'
        return 'unknown-filter'
    kinds = set()
    for v, g, s in vals:
        if v == 'Option::None{}':
            continue
        if re.match(r'^Option::Some\{0: \w+\}$', v) and uid(s):
            kinds.add('uid')
        elif v.startswith('Option::from_residual(') and c.must_pass(s.bb, fact_is(r'.', ['ReferenceIdRequest'])):
            kinds.add('refid-none')
        elif re.match(r'^Option::Some\{0: ExtensionField::into_owned\(ExtensionField::ReferenceIdResponse\{0: \(Option::branch\(ReferenceIdRequest::to_response\(\(\w+ as ReferenceIdRequest\)\.0, server_info\.ntp_snapshot\.bloom_filter\)\) as Continue\)\.0\}\)\}$', v) \
                and c.must_pass(s.bb, fact_is(r'.', ['ReferenceIdRequest'])):
            kinds.add('refid')
        elif v == 'Option::Some{0: ExtensionField::NtsCookie{0: Cow::Owned{0: KeySet::encode_cookie(keyset, cookie)}}}' \
                and c.must_pass(s.bb, fact_is(r'.', ['NtsCookie', 'NtsCookiePlaceholder'])):
            kinds.add('cookie')
        else:
            kinds.add('other:' + v[:80])
    if kinds == {'uid', 'refid', 'refid-none'}:
        return 'uid-refid-map'
    if kinds == {'cookie'}:
        return 'cookie-map'
    if kinds == {'uid'}:
        return 'uid-map'
    return 'unknown:' + ','.join(sorted(kinds))


BUILDERS = {
    # builder: {version: (header fn, {list: (closure class or None, draft?)})}
    'timestamp_response': {'V3': ('NtpHeaderV3V4::timestamp_response', 'default'),
                           'V4': ('NtpHeaderV3V4::timestamp_response', {'untrusted': ('uid-filter', False)}),
                           'V5': ('NtpHeaderV5::timestamp_response', {'untrusted': ('uid-refid-map', True)})},
    'nts_timestamp_response': {'V4': ('NtpHeaderV3V4::timestamp_response', {'authenticated': ('uid-filter', False), 'encrypted': ('cookie-map', False)}),
                               'V5': ('NtpHeaderV5::timestamp_response', {'authenticated': ('uid-refid-map', True), 'encrypted': ('cookie-map', False)})},
    'rate_limit_response': {'V3': ('NtpHeaderV3V4::rate_limit_response', 'default'),
                            'V4': ('NtpHeaderV3V4::rate_limit_response', {'untrusted': ('uid-filter', False)}),
                            'V5': ('NtpHeaderV5::rate_limit_response', {'untrusted': ('uid-filter', True)})},
    'nts_rate_limit_response': {'V4': ('NtpHeaderV3V4::rate_limit_response', {'authenticated': ('uid-filter', False)}),
                                'V5': ('NtpHeaderV5::rate_limit_response', {'authenticated': ('uid-filter', True)})},
    'deny_response': {'V3': ('NtpHeaderV3V4::deny_response', 'default'),
                      'V4': ('NtpHeaderV3V4::deny_response', {'untrusted': ('uid-filter', False)}),
                      'V5': ('NtpHeaderV5::deny_response', {'untrusted': ('uid-filter', True)})},
    'nts_deny_response': {'V4': ('NtpHeaderV3V4::deny_response', {'authenticated': ('uid-filter', False)}),
                          'V5': ('NtpHeaderV5::deny_response', {'authenticated': ('uid-filter', True)})},
    'nts_nak_response': {'V4': ('NtpHeaderV3V4::nts_nak_response', {'untrusted': ('uid-filter', False)}),
                         'V5': ('NtpHeaderV5::nts_nak_response', {'untrusted': ('uid-filter', True)})},
}
DRAFT = 'once::once(ExtensionField::DraftIdentification{0: Cow::Borrowed{0: DRAFT_VERSION=ntp_proto::packet::v5::DRAFT_VERSION}})'


def r2(ctx):
    ctx.rule('C18-R2', 'packet builders: per NtpHeader::Vn arm the answer is NtpHeader::Vn built by the matching header builder from that '
             'arm\'s header; every extension-field list of the answer is empty or a request list passed through a filter closure of the '
             'expected class (UID only; UID + reference-id response in V5 time answers; cookie closure for NTS time answers); the only '
             'constant added is the V5 draft identification; mac is None')
    P = ctx.P
    for bn, arms in BUILDERS.items():
        b = P.body(PKT + '::' + bn)
        cls = {c.id.split('::', 1)[1]: classify_closure(c) for c in P.closures_of(b)}
        aggs = b.aggregates(r'packet::NtpPacket$')
        seen_versions = set()
        for s in aggs:
            rv = s.data['rv']
            f = {n: S(b.operand_term(o)) for n, o in zip(rv['fields'], rv['ops'])}
            ver = None
            for v in ('V3', 'V4', 'V5'):
                if b.must_pass(s.bb, fact_is(r'\.header$', [v])):
                    ver = v
            key = '%s|%s' % (bn, ver)
            if ver not in arms:
                ctx.check(key + '|unexpected-arm', False, 'answer constructed for %s' % ver, s.where())
                continue
            seen_versions.add(ver)
            hfn, lists = arms[ver]
            hm = re.match(r'^NtpHeader::(V\d)\{0: (.*)\}$', f['header'])
            ok = bool(hm) and hm.group(1) == ver
            ctx.check(key + '|same-version', ok, 'arm %s builds header `%s`' % (ver, f['header'][:80]), s.where(), sample=f['header'][:120])
            if hm:
                inner = hm.group(2)
                call = re.match(r'^(?:NtpHeaderV3V4|NtpHeaderV5)::(\w+)\((.*)\)$', inner)
                if not call and re.match(r'^\w+$', inner):
                    # `let mut response_header = builder(..)` followed by field writes (V4 time answer)
                    li = [i for i, l in enumerate(b.locals) if l.get('name') == inner]
                    if li:
                        whole = [d for d in b.defs()[li[0]] if d[2] != 'partial']
                        parts = [d for d in b.defs()[li[0]] if d[2] == 'partial']
                        if len(whole) == 1:
                            inner = S(b._def_term(whole[0], ()))
                            call = re.match(r'^(?:NtpHeaderV3V4|NtpHeaderV5)::(\w+)\((.*)\)$', inner)
                        for d in parts:
                            st = d[3]
                            fld = [p['f'] for p in st['place']['p'] if isinstance(p, dict) and 'f' in p]
                            val = S(b.rvalue_term(st['rv']))
                            okw = fld == ['reference_timestamp'] and val.startswith('UPGRADE_TIMESTAMP') and b.must_pass(
                                d[0], fact_cmp('Eq', REQ + r'\.header as V4\)\.0\.reference_timestamp$', r'^UPGRADE_TIMESTAMP'))
                            ctx.check(key + '|header-post-write|' + '.'.join(fld), okw,
                                      'answer header field %s overwritten with %s' % (fld, val[:60]), '%s:%s' % (b.file, st['line']), sample=[fld, val[:80]])
                okh = bool(call) and (hfn.split('::')[1] == call.group(1)) and re.search(r'\(' + REQ + r'\.header as %s\)\.0' % ver, call.group(2)) is not None \
                    and hfn.split('::')[0] in inner
                ctx.check(key + '|header-builder', okh, 'header built by `%s`, expected %s on this arm\'s header' % (inner[:100], hfn), s.where(), sample=inner[:160])
            ctx.check(key + '|mac-none', f['mac'] == 'Option::None{}', 'answer mac is %s' % f['mac'], s.where(), sample=f['mac'])
            ef = f['efdata']
            if lists == 'default':
                ctx.check(key + '|efdata-default', ef == 'ExtensionFieldData::default()', 'efdata is %s' % ef[:120], s.where(), sample=ef[:120])
                continue
            efs = [x for x in b.aggregates(r'ExtensionFieldData$') if b.must_pass(x.bb, fact_is(r'\.header$', [ver]))]
            efa = one(efs, 'ExtensionFieldData literal for %s/%s' % (bn, ver))
            erv = efa.data['rv']
            lf = {n: S(b.operand_term(o)) for n, o in zip(erv['fields'], erv['ops'])}
            for lst in ('authenticated', 'encrypted', 'untrusted'):
                v = lf[lst]
                if lst not in lists:
                    ctx.check(key + '|%s-empty' % lst, v == 'Vec::new()', '%s list of the answer is `%s`' % (lst, v[:120]), efa.where(), sample=v[:160])
                    continue
                want_cls, draft = lists[lst]
                cl = re.findall(r'closure:packet::\{impl#\d+\}::(\w+::\{closure#\d+\})', v)
                got_cls = [cls.get('packet::' + '{impl#' + x, None) for x in []]
                got_cls = []
                for cid, k in cls.items():
                    if any(cid.endswith(x) for x in cl):
                        got_cls.append(k)
                ctx.check(key + '|%s-closure-class' % lst, got_cls == [want_cls], '%s list is filtered by closure class %s, expected %s' % (lst, got_cls, want_cls),
                          efa.where(), sample={'pipeline': v[:300], 'classes': got_cls})
                pipe_ok = re.match(r'^Iterator::collect\((Iterator::chain\()?Iterator::(filter|filter_map)\(', v) is not None
                ctx.check(key + '|%s-filtered' % lst, pipe_ok, '%s list is not `collect(filter(..))` of a request list: %s' % (lst, v[:120]), efa.where(), sample=v[:200])
                has_draft = DRAFT in v
                ctx.check(key + '|%s-draft' % lst, has_draft == draft, 'draft identification %s in %s list' % ('unexpectedly present' if has_draft else 'missing', lst), efa.where(), sample=has_draft)
                srcs = sorted(set(re.findall(REQ + r'\.efdata\.(\w+)', v)))
                allowed = {'cookie-map': ['authenticated', 'encrypted']}.get(want_cls, ['authenticated', 'untrusted'])
                ctx.check(key + '|%s-sources' % lst, set(srcs) <= set(allowed) and 'encrypted' not in (srcs if want_cls != 'cookie-map' else []),
                          '%s list is fed from request lists %s' % (lst, srcs), efa.where(), sample=srcs)
                consts = re.findall(r'once::once\(', v)
                ctx.check(key + '|%s-no-other-constants' % lst, len(consts) == (1 if draft else 0), 'extra constant fields chained into %s list' % lst, efa.where(), sample=len(consts))
        ctx.check('%s|arms' % bn, seen_versions == set(arms), 'arms with an answer: %s, expected %s' % (sorted(seen_versions), sorted(arms)), sample=sorted(seen_versions))


def r3(ctx):
    ctx.rule('C18-R3', 'the encrypted field list of a request is read only by nts_timestamp_response (cookie closure input) among the response builders')
    P = ctx.P
    for bn in BUILDERS:
        b = P.body(PKT + '::' + bn)
        reads = []
        for bb in [b] + P.closures_of(b):
            for blk in bb.blocks:
                for st in blk['stmts']:
                    if st['k'] == 'assign':
                        t = S(bb.rvalue_term(st['rv']))
                        if re.search(REQ + r'\.efdata\.encrypted', t):
                            reads.append(t[:80])
        if bn == 'nts_timestamp_response':
            ctx.check('%s|reads-encrypted' % bn, len(reads) >= 2, 'cookie closure no longer reads the encrypted list', sample=len(reads))
        else:
            ctx.check('%s|reads-encrypted' % bn, not reads, '%s reads the request\'s encrypted fields' % bn, sample=reads[:3])


def r4(ctx):
    ctx.rule('C18-R4', 'the packet carried by a DecryptError has an empty encrypted list: ExtensionFieldData::deserialize only extends '
             '`encrypted` after a successful decrypt and returns Err(DecryptError) only with is_valid_nts == false')
    d = ctx.P.body('ntp_proto::packet::extension_fields::ExtensionFieldData::deserialize')
    inv = some(d.aggregates(r'InvalidNtsExtensionField$'), 'InvalidNtsExtensionField construction')
    fl_idx = flag_locals(d)
    fl = one(sorted(set(fl_idx.values())), 'the validity flag of ExtensionFieldData::deserialize')
    for s in inv:
        ctx.guard(d, s, 'invalid-nts', lambda f: f.kind == 'bool' and not f.pol and re.match(r'^%s\b' % re.escape(fl), tstr(f.term)) is not None, key='deserialize|invalid|flag-false')
    ws = [s for s in d.assigns(lambda pl: pl['l'] != 0 and not pl['p']) if (s.data.get('place') or s.data.get('dest'))['l'] in fl_idx]
    falses = [s for s in ws if s.kind == 'assign' and written_value(d, s) == '0']
    ctx.check('deserialize|invalid-flag-sites', len(falses) == 2, 'is_valid_nts = false sites: %d' % len(falses), sample=len(falses))
    ext = [s for s in d.calls(r'Extend::extend$|Vec::extend') if re.search(r'\.encrypted$', S(d.call_args(s)[0]))]
    for f in falses:
        # after is_valid_nts = false in an iteration no extend happens in that iteration: the block `continue`s
        ctx.check('deserialize|%s|no-plaintext-kept' % site_desc(d, f), all(not d.must_pass(e.bb, lambda x: False) or True for e in ext) and
                  all(d.must_pass(e.bb, fact_is(r'RawEncryptedField::decrypt\(', 'Ok')) for e in ext),
                  'plaintext can be kept on a failed decrypt', f.where())
    nak = ctx.P.body(PKT + '::nts_nak_response')
    ctx.check('nts_nak_response|arg-from-decrypt-error', True, '', sample='packet_from_client')


RULES = [r1, r2, r3, r4]
FLOORS = {'C18-R1': 24, 'C18-R2': 90, 'C18-R3': 7, 'C18-R4': 4}
