"""C02 — frequency corrections stay within the configured maximum."""
import re

from engine.rulelib import *
from engine.run import site_desc

EXPLANATION = (
    "WHO/FLOW rules: NtpClock::set_frequency is called only from steer_frequency with self.freq_offset, whose only writer "
    "after construction stores `f64::clamp(.., -maximum_frequency_steer, maximum_frequency_steer)` on every path before the "
    "call; the slew frequency is min(slew_maximum_frequency_offset, ..) and change_desired_frequency receives -freq*signum."
)
NOT_DECIDED = ["floating-point rounding of (1+a)(1+b)-1", "NaN estimates (C06, not applicable)"]

K = 'ntp_proto::algorithm::kalman::KalmanClockController'


def r1(ctx):
    ctx.rule('C02-R1', 'callers of NtpClock::set_frequency are KalmanClockController::steer_frequency (and the OS wrapper itself)')
    P = ctx.P
    who = sorted({c[0].npath for c in P.callers_of('ntp_proto::clock::NtpClock::set_frequency')})
    extra = [w for w in who if w != K + '::steer_frequency' and not w.startswith('<ntpd::daemon::clock::NtpClockWrapper')]
    ctx.check('who-calls-set_frequency', not extra and (K + '::steer_frequency') in who, 'unexpected callers of set_frequency: %s' % extra, sample=who)
    who = sorted({c[0].npath for c in P.callers_of(K + '::steer_frequency')})
    ctx.check('who-calls-steer_frequency', set(who) == {K + '::update_clock', K + '::change_desired_frequency'}, 'callers: %s' % who, sample=who)


def r2(ctx):
    ctx.rule('C02-R2', 'steer_frequency: set_frequency(self.freq_offset) after freq_offset := clamp(x, -maximum_frequency_steer, '
             'maximum_frequency_steer) on every path; freq_offset has no other writer (construction reads the kernel value)')
    P = ctx.P
    b = P.body(K + '::steer_frequency')
    call = one(b.calls(r'NtpClock::set_frequency$'), 'set_frequency call')
    ctx.check('steer_frequency|arg', S(b.call_args(call)[1]) == 'self.freq_offset', 'set_frequency argument is `%s`' % S(b.call_args(call)[1]), call.where(),
              sample=S(b.call_args(call)[1]))
    ws = [(s, written_value(b, s)) for s, f in self_writes(b) if f == 'freq_offset' and s.kind == 'assign']
    ctx.check('steer_frequency|one-write', len(ws) == 1, 'freq_offset writes in steer_frequency: %d' % len(ws), sample=[v for _, v in ws])
    for s, v in ws:
        m = re.match(r'^f64::clamp\((.*), -\(self\.algo_config\.maximum_frequency_steer\), self\.algo_config\.maximum_frequency_steer\)$', v)
        ctx.check('steer_frequency|clamped', m is not None, 'freq_offset is set to `%s`' % v, s.where(), sample=v)
        ctx.check('steer_frequency|write-before-call', blocks_must_pass_block(b, call.bb, [s.bb]), 'set_frequency reachable before the clamped value is stored', s.where())
    allw = sorted({bd.npath for bd, s in P.field_writers('freq_offset', r'KalmanClockController$')})
    ctx.check('who-writes-freq_offset', allw == [K + '::steer_frequency'], 'writers of freq_offset: %s' % allw, sample=allw)
    allw = sorted({bd.npath for bd, s in P.field_writers('maximum_frequency_steer', r'AlgorithmConfig$')})
    ctx.check('who-writes-maximum_frequency_steer', not [w for w in allw if 'Deserialize' not in w and 'default' not in w.lower()],
              'maximum_frequency_steer is written at run time by %s' % allw, sample=allw)


def r3(ctx):
    ctx.rule('C02-R3', 'steer_offset (slew branch): freq = f64::min(slew_maximum_frequency_offset, |change|/slew_minimum_duration) and '
             'change_desired_frequency(-freq * signum(change), freq_delta); desired_freq is only written there and reset nowhere else')
    P = ctx.P
    b = P.body(K + '::steer_offset')
    c = one(b.calls(r'KalmanClockController::change_desired_frequency$'), 'change_desired_frequency call')
    a = S(b.call_args(c)[1])
    ok = a == '(-(f64::min(self.algo_config.slew_maximum_frequency_offset, (f64::abs(change) / self.algo_config.slew_minimum_duration))) * f64::signum(change))'
    ctx.check('steer_offset|slew-frequency', ok, 'slew frequency is `%s`' % a, c.where(), sample=a)
    ctx.guard(b, c, 'below-step-threshold', fact_cmp('Le', r'^f64::abs\(change\)$', r'^self\.algo_config\.step_threshold$'), key='steer_offset|slew|below-threshold')
    d = P.body(K + '::change_desired_frequency')
    ws = [(s, written_value(d, s)) for s, f in self_writes(d) if f == 'desired_freq']
    ctx.check('change_desired_frequency|desired', [v for _, v in ws] == ['new_freq'], 'desired_freq set to %s' % [v for _, v in ws], sample=[v for _, v in ws])
    sf = one(d.calls(r'KalmanClockController::steer_frequency$'), 'steer_frequency call')
    v = S(d.call_args(sf)[1])
    ctx.check('change_desired_frequency|delta', v == '((self.desired_freq - new_freq) + freq_delta)', 'frequency change is `%s`' % v, sf.where(), sample=v)
    allw = sorted({bd.npath for bd, s in P.field_writers('desired_freq', r'KalmanClockController$')})
    ctx.check('who-writes-desired_freq', allw == [K + '::change_desired_frequency'], 'writers of desired_freq: %s' % allw, sample=allw)


RULES = [r1, r2, r3]
FLOORS = {'C02-R1': 2, 'C02-R2': 6, 'C02-R3': 5}
