"""PANIC roots per property: normalised root paths and an optional stop pattern (bodies matching it are
treated as leaves, with the reason recorded as an assumption of the property)."""

KALMAN_STOP = (r'^ntp_proto::algorithm::kalman::',
               'the clock filter numerics (Kalman source filter / matrix code, property C06 territory) are a leaf: a panic inside '
               'the filter for extreme measurement values is not decided here')
NETPTP_STOP = (r'^<*statime_netptp::',
               'the OS socket layer (statime_netptp: libc socket options, timestamping control messages) is a leaf: its failures are '
               'environment failures, not consequences of datagram contents')

ROOTS = {
    'C14': {'roots': ['ntp_proto::source::NtpSource::handle_timer'], 'stops': [KALMAN_STOP]},
    'C22': {'roots': ['ntp_proto::server::Server::handle'], 'stops': []},
    'C23': {'roots': ['ntp_proto::packet::NtpPacket::deserialize'], 'stops': []},
    'C24': {'roots': ['ntp_proto::packet::NtpPacket::serialize'], 'stops': []},
    'C27': {'roots': ['ntp_proto::keyset::KeySetProvider::load', 'ntp_proto::keyset::KeySet::encode_cookie', 'ntp_proto::keyset::KeySet::decode_cookie',
                      'ntp_proto::keyset::KeySetProvider::rotate', 'ntp_proto::keyset::KeySetProvider::store'], 'stops': []},
    'C30': {'roots': ['ntp_proto::nts::record::NtsRecord::parse', 'ntp_proto::nts::messages::Request::parse',
                      'ntp_proto::nts::messages::KeyExchangeResponse::parse', 'ntp_proto::nts::record::NtsRecord::serialize',
                      'ntp_proto::nts::messages::Request::serialize', 'ntp_proto::nts::messages::KeyExchangeResponse::serialize',
                      'ntp_proto::nts::messages::ErrorResponse::serialize', 'ntp_proto::nts::messages::NoOverlapResponse::serialize',
                      'ntp_proto::nts::messages::SupportsResponse::serialize'], 'stops': []},
    'C31': {'roots': ['ntp_proto::ipfilter::IpFilter::is_in', 'ntp_proto::ipfilter::IpFilter::new',
                      '<ntp_proto::server::IpSubnet as core::str::traits::FromStr>::from_str'], 'stops': []},
    # toml::from_str is outside the workspace, so the serde entry points it calls back into are roots themselves:
    # every Deserialize / Visitor / DeserializeSeed method implemented in ntp-proto and ntpd (hand-written or derived).
    'C39': {'roots': ['ntpd::daemon::config::Config::check', 'ntpd::daemon::config::Config::from_file'],
            'root_regex': r'^<+(ntpd|ntp_proto)::.* as serde_core::de::(Deserialize|Visitor|DeserializeSeed)(<.*>)?>::\w+$', 'stops': [NETPTP_STOP]},
    'C40': {'roots': ['ntpd::daemon::sock_source::deserialize_sample', 'ntpd::daemon::sock_source::SockSourceTask::run'],
            'stops': [KALMAN_STOP, NETPTP_STOP]},
    'C41': {'roots': ['statime_wire::messages::Message::deserialize', 'statime_wire::messages::Message::serialize',
                      'statime_wire::messages::Message::wire_size', 'statime_wire::common::tlv::TlvSet::tlvs'], 'stops': []},
    'C44': {'roots': ['statime_csptp::source::CsptpSource::run', 'statime_csptp::source::CsptpSource::collect_response',
                      'statime_csptp::source::add_correction', 'statime_csptp::source::convert_to_ntp'], 'stops': [KALMAN_STOP, NETPTP_STOP]},
    'C45': {'roots': ['statime_csptp::server::serve', 'statime_csptp::server::handle_packet'], 'stops': [NETPTP_STOP]},
}


def stop_regex(prop):
    st = ROOTS[prop]['stops']
    return '|'.join(s[0] for s in st) if st else None
