"""C11 — unreachable sources are reset, responsive sources are kept."""
import re

from engine.rulelib import *
from engine.run import site_desc

EXPLANATION = (
    "GUARD/COUNT/PRED rules on NtpSource::handle_timer and Reach: Reset/Demobilize at the top only under "
    "!is_reachable && tries >= 3 (choice by the deny flag) with no Send on those paths; other Resets only on the NTS "
    "no-cookie paths; the reach register is an 8-bit shift register (poll: <<= 1, received: |= 1, reachable: != 0, "
    "unanswered: trailing_zeros) advanced exactly once per Send path and fed only by process_message."
)
NOT_DECIDED = ["timing of the timer itself (tokio scheduler)"]

SRC = 'ntp_proto::source::NtpSource'
REACH = 'ntp_proto::source::Reach'
UNREACH = fact_call(r'Reach::is_reachable$', False, [r'^self\.reach$'])
TRIES = fact_cmp('Ge', r'^self\.tries$', r'^STARTUP_TRIES_THRESHOLD=3$')
NTS_SOME = fact_is(r'^self\.nts$', 'Some')


def r1(ctx):
    ctx.rule('C11-R1', 'handle_timer: Demobilize/Reset without NTS cause only under !reach.is_reachable() && tries >= '
             'STARTUP_TRIES_THRESHOLD(3), chosen by have_deny_rstr_response; those paths build no Send; the only other '
             'Resets are the NTS no-cookie / oversized-cookie paths')
    P = ctx.P
    b = P.body(SRC + '::handle_timer')
    resets = some(b.aggregates(r'NtpSourceAction$', 'Reset'), 'Reset in handle_timer')
    top = [s for s in resets if b.must_pass(s.bb, UNREACH)]
    nts = [s for s in resets if s not in top]
    ctx.check('handle_timer|reset-sites', len(top) == 1 and len(nts) == 2,
              'expected 1 unreachable Reset and 2 NTS cookie Resets, found %d/%d' % (len(top), len(nts)), sample=[len(top), len(nts)])
    for s in top:
        ctx.guard(b, s, 'tries>=3', TRIES)
        ctx.guard(b, s, 'no-deny-flag', lambda f: f.kind == 'bool' and not f.pol and S(f.term) == 'self.have_deny_rstr_response')
    for s in nts:
        ctx.guard(b, s, 'nts-some', NTS_SOME)
        ok = b.must_pass(s.bb, any_of(fact_is(r'CookieStash::get\(', 'None'),
                                      fact_cmp('Eq', r'^Ord::min\(CookieStash::gap\(', r'^0$')))
        ctx.check('handle_timer|%s|nts-cause' % site_desc(b, s), ok, 'NTS Reset not caused by missing cookie / zero new cookies', s.where(),
                  sample=b.guard_strings(s.bb)[-3:])
    sends = some(b.aggregates(r'NtpSourceAction$', 'Send'), 'Send in handle_timer')
    # no Send reachable from the unreachable&&tries region
    n, region = region_after(b, TRIES)
    ctx.check('handle_timer|tries-edge', n == 1, 'tries >= 3 edge not found', sample=n)
    ctx.check('handle_timer|no-send-when-unreachable', all(s.bb not in region for s in sends),
              'a Send is reachable after the unreachable/tries test succeeded')
    # every path without Send returns Reset or Demobilize: count of action aggregates per return
    ctx.check('STARTUP_TRIES_THRESHOLD', P.const_val('ntp_proto::source::STARTUP_TRIES_THRESHOLD') == '3', 'threshold changed',
              sample=P.const_val('ntp_proto::source::STARTUP_TRIES_THRESHOLD'))
    # a reachable source is never reset by the timer (plain NTP): top reset requires unreachable (checked) and
    # the is_reachable test reads self.reach
    callers = sorted({c[0].npath for c in P.callers_of(REACH + '::is_reachable')})
    ctx.check('is_reachable|callers-include-timer', SRC + '::handle_timer' in callers, 'handle_timer does not consult reach', sample=callers)


def r2(ctx):
    ctx.rule('C11-R2', 'Reach is a u8 shift register: poll() is `<<= 1`, received_packet() is `|= 1`, is_reachable() is `!= 0`, '
             'unanswered_polls() is trailing_zeros(); poll() and tries.saturating_add(1) happen exactly once on every Send path; '
             'received_packet only from process_message')
    P = ctx.P
    adt = P.adt(REACH)
    ctx.check('Reach|u8', adt['variants'][0]['fields'][0]['ty'] == 'u8', 'Reach is no longer a u8', sample=adt['variants'][0]['fields'][0]['ty'])
    poll = P.body(REACH + '::poll')
    w = [written_value(poll, s) for s, f in self_writes(poll)]
    ctx.check('Reach::poll|shape', w == ['(self.0 << 1)'], 'Reach::poll is %s' % w, sample=w)
    rp = P.body(REACH + '::received_packet')
    w = [written_value(rp, s) for s, f in self_writes(rp)]
    ctx.check('Reach::received_packet|shape', w == ['(self.0 | 1)'], 'received_packet is %s' % w, sample=w)
    ir = [v for _, v in ret_assigns(P.body(REACH + '::is_reachable'))]
    ctx.check('Reach::is_reachable|shape', ir == ['(self.0 != 0)'], 'is_reachable is %s' % ir, sample=ir)
    up = [v for _, v in ret_assigns(P.body(REACH + '::unanswered_polls'))]
    ctx.check('Reach::unanswered_polls|shape', up == ['num::trailing_zeros(self.0)'] or (len(up) == 1 and re.match(r'^\w+::trailing_zeros\(self\.0\)$', up[0])),
              'unanswered_polls is %s' % up, sample=up)
    b = P.body(SRC + '::handle_timer')
    polls = {s.bb for s in b.calls(r'Reach::poll$')}
    tries_w = {s.bb for s, f in self_writes(b) if f == 'tries'}
    for s, f in self_writes(b):
        if f == 'tries':
            v = written_value(b, s)
            ctx.check('handle_timer|tries-value', re.match(r'^\w+::saturating_add\(self\.tries, 1\)$', v) is not None, 'tries updated with `%s`' % v, s.where(), sample=v)
    c1 = b.count_paths(lambda x: x in polls, cap=3)
    c2 = b.count_paths(lambda x: x in tries_w, cap=3)
    for s in b.aggregates(r'NtpSourceAction$', 'Send'):
        ctx.check('handle_timer|send|poll-once', c1[s.bb] == {1}, 'reach.poll() count before Send is %s' % sorted(c1[s.bb]), s.where(), sample=sorted(c1[s.bb]))
        ctx.check('handle_timer|send|tries-once', c2[s.bb] == {1}, 'tries increment count before Send is %s' % sorted(c2[s.bb]), s.where(), sample=sorted(c2[s.bb]))
    callers = sorted({c[0].npath for c in P.callers_of(REACH + '::received_packet')})
    ctx.check('received_packet|callers', callers == [SRC + '::process_message'], 'received_packet callers: %s' % callers, sample=callers)
    callers = sorted({c[0].npath for c in P.callers_of(REACH + '::poll')})
    ctx.check('Reach::poll|callers', callers == [SRC + '::handle_timer'], 'Reach::poll callers: %s' % callers, sample=callers)
    pm = P.body(SRC + '::process_message')
    rps = some(pm.calls(r'Reach::received_packet$'), 'received_packet in process_message')
    ctx.check('process_message|received_packet-every-path', blocks_must_pass_block(pm, pm.returns()[0].bb, [s.bb for s in rps]),
              'process_message can return without marking the source reachable')
    # observable: unanswered_polls reported from reach
    obs = P.bodies_matching(r'^ntp_proto::source::NtpSource::observe$')
    for o in obs:
        inits = field_inits(P, r'ObservableSourceState$', 'unanswered_polls', bodies=[o])
        for bd, s, t in inits:
            ctx.check('observe|unanswered_polls', S(t) == 'Reach::unanswered_polls(self.reach)', 'observe reports `%s`' % S(t), s.where(), sample=S(t))


def r3(ctx):
    ctx.rule('C11-R3', '"deny seen since the last usable answer": process_message clears have_deny_rstr_response (= false) on every path, so a '
             'later unreachable timer resets instead of demobilising')
    pm = ctx.P.body(SRC + '::process_message')
    ws = [s for s, w in self_writes(pm) if w == 'have_deny_rstr_response']
    ok = len(ws) == 1 and written_value(pm, ws[0]) == '0' and blocks_must_pass_block(pm, pm.returns()[0].bb, [ws[0].bb])
    ctx.check('process_message|clears-deny-flag-on-every-path', ok, 'a usable answer does not always clear the deny marker: a source that saw a deny, then '
              'answered usably (e.g. over NTPv4), then went silent is demobilised instead of reset', ws[0].where() if ws else None,
              sample=[written_value(pm, w) for w in ws])
    t = ctx.P.body(SRC + '::handle_timer')
    ctx.check('handle_timer|flag-read-only', not [s for s, w in self_writes(t) if w == 'have_deny_rstr_response'], 'handle_timer modifies the deny marker')


def r4(ctx):
    ctx.rule('C11-R4', 'a DENY/RSTR answer is recognised as such (and not as RATE, which handle_incoming tests first): the kiss classes of C09-R5 are disjoint')
    from rules.C09 import kiss_classes
    kiss_classes(ctx)


RULES = [r1, r2, r3, r4]
FLOORS = {'C11-R1': 9, 'C11-R2': 11, 'C11-R3': 2, 'C11-R4': 8}
