"""C01 — clock steps never exceed the configured panic thresholds."""
import re

from engine.rulelib import *
from engine.run import site_desc

EXPLANATION = (
    "WHO/GUARD/FLOW/PRED rules: the only daemon path to NtpClock::step_clock is KalmanClockController::steer_offset, where "
    "the step is preceded on every path by check_offset_steer(change) for the same `change`; check_offset_steer consults "
    "only the startup threshold while in_startup and the single-step AND accumulated thresholds afterwards (accumulating "
    "|change| first), and every exceeded edge ends in a diverging process::exit with no return reachable; "
    "StepThreshold::is_within bounds forward with `<` and backward with `> -v`; in_startup is cleared only in "
    "update_clock after steering."
    ' The accumulated-step counter persists: accumulated_steps has one writer and self.timedata is never overwritten as a whole.'
)
NOT_DECIDED = ["floating point/fixed point arithmetic of NtpDuration::from_seconds", "accumulation over long histories as numbers"]

K = 'ntp_proto::algorithm::kalman::KalmanClockController'
CLOCK_STEP = 'ntp_proto::clock::NtpClock::step_clock'


def r1(ctx):
    ctx.rule('C01-R1', 'callers of NtpClock::step_clock in the workspace are KalmanClockController::steer_offset (daemon) and the separate '
             'force-sync tool; nothing else')
    P = ctx.P
    who = sorted({c[0].npath for c in P.callers_of(CLOCK_STEP)})
    allowed = {
        K + '::steer_offset': 'the guarded daemon path',
        'ntpd::force_sync::SingleShotController::offer_clock_change': 'ntp-ctl force-sync: separate binary mode, explicitly user-confirmed step',
        'ntpd::force_sync::SingleShotController::offer_clock_change::{closure#0}': 'same',
        '<ntpd::daemon::clock::NtpClockWrapper as ntp_proto::clock::NtpClock>::step_clock': 'the OS clock wrapper implementing the trait (forwarding)',
    }
    extra = [w for w in who if w not in allowed and not w.startswith('ntpd::force_sync::')]
    ctx.check('who-calls-step_clock', not extra and (K + '::steer_offset') in who, 'unexpected callers of step_clock: %s' % extra, sample=who)
    # kernel-level stepping primitive: only the wrapper
    low = sorted({c[0].npath for c in P.callers_of('<ntpd::daemon::clock::NtpClockWrapper as ntp_proto::clock::NtpClock>::step_clock')}) \
        if '<ntpd::daemon::clock::NtpClockWrapper as ntp_proto::clock::NtpClock>::step_clock' in P.by_npath else []
    ctx.check('who-calls-wrapper-step', all(w.startswith('ntpd::force_sync') or w.startswith('ntp_proto::algorithm::kalman') for w in low) or not low,
              'direct callers of the clock wrapper step: %s' % low, sample=low)


def r2(ctx):
    ctx.rule('C01-R2', 'steer_offset: step_clock(NtpDuration::from_seconds(change)) is preceded on every path by check_offset_steer(change) '
             'with the same `change`, on the |change| > step_threshold edge; steer_offset is only called from update_clock')
    P = ctx.P
    b = P.body(K + '::steer_offset')
    step = one(b.calls(r'NtpClock::step_clock$'), 'step_clock call')
    chk = one(b.calls(r'KalmanClockController::check_offset_steer$'), 'check_offset_steer call')
    ctx.check('steer_offset|check-before-step', blocks_must_pass_block(b, step.bb, [chk.bb]), 'step_clock reachable without check_offset_steer', step.where())
    a_chk = S(b.call_args(chk)[1])
    a_step = S(b.call_args(step)[1])
    ctx.check('steer_offset|same-change', a_chk == 'change' and a_step == 'NtpDuration::from_seconds(change)',
              'checked value `%s` but stepped `%s`' % (a_chk, a_step), step.where(), sample=[a_chk, a_step])
    ctx.guard(b, step, 'above-step-threshold', fact_cmp('Gt', r'^f64::abs\(change\)$', r'^self\.algo_config\.step_threshold$'), key='steer_offset|step|above-threshold')
    who = sorted({c[0].npath for c in P.callers_of(K + '::check_offset_steer')})
    ctx.check('who-calls-check_offset_steer', who == [K + '::steer_offset'], 'callers: %s' % who, sample=who)
    who = sorted({c[0].npath for c in P.callers_of(K + '::steer_offset')})
    ctx.check('who-calls-steer_offset', who == [K + '::update_clock'], 'callers: %s' % who, sample=who)
    # `change` is not reassigned between check and step
    ctx.check('steer_offset|change-immutable', not [d for d in b.defs().get(2, []) if d[2] != 'partial'] and b.local_name(2) == 'change',
              '`change` is reassigned in steer_offset')


def r3(ctx):
    ctx.rule('C01-R3', 'check_offset_steer: in_startup -> only startup_step_panic_threshold.is_within(change); otherwise accumulated_steps += '
             '|change| first, then single_step_panic_threshold.is_within(change) and accumulated_step_panic_threshold.is_some_and(|v| '
             'accumulated_steps > v); every exceeded edge reaches process::exit and cannot return')
    P = ctx.P
    b = P.body(K + '::check_offset_steer')
    ins = fact_str(r'^self\.in_startup$')
    outs = fact_str(r'^!self\.in_startup$')
    calls = some(b.calls(r'StepThreshold::is_within$'), 'is_within calls')
    table = {}
    for s in calls:
        a = [S(x) for x in b.call_args(s)]
        fld = a[0].rsplit('.', 1)[-1]
        table[fld] = s
        ctx.check('check_offset_steer|%s|arg' % fld, a[1] == 'NtpDuration::from_seconds(change)', 'threshold tested against `%s`' % a[1], s.where(), sample=a[1])
    ctx.check('check_offset_steer|thresholds', sorted(table) == ['single_step_panic_threshold', 'startup_step_panic_threshold'],
              'thresholds consulted through is_within: %s' % sorted(table), sample=sorted(table))
    if 'startup_step_panic_threshold' in table:
        ctx.guard(b, table['startup_step_panic_threshold'], 'in-startup', ins, key='check_offset_steer|startup-threshold|in-startup')
    if 'single_step_panic_threshold' in table:
        ctx.guard(b, table['single_step_panic_threshold'], 'after-startup', outs, key='check_offset_steer|single-threshold|after-startup')
    acc = one(b.calls(r'Option::is_some_and$'), 'accumulated threshold test')
    ctx.check('check_offset_steer|accumulated|source', S(b.call_args(acc)[0]) == 'self.synchronization_config.accumulated_step_panic_threshold',
              'accumulated test on `%s`' % S(b.call_args(acc)[0]), acc.where(), sample=S(b.call_args(acc)[0]))
    ctx.guard(b, acc, 'after-startup', outs, key='check_offset_steer|accumulated|after-startup')
    cl = one(user_closures(P, b), 'closure of check_offset_steer')
    cv = [canon_cmp_str(v) for _, v in ret_assigns(cl)]
    # `accumulated_steps > limit` in either orientation, whatever the closure parameter is called
    ctx.check('check_offset_steer|accumulated|compare', len(cv) == 1 and re.match(r'^\(\w+ < self\.timedata\.accumulated_steps\)$', cv[0]) is not None, 'accumulated comparison is %s' % cv, sample=cv)
    adds = [s for s in b.calls(r'NtpDuration as core::ops::arith::AddAssign>::add_assign$|AddAssign::add_assign$')
            if S(b.call_args(s)[0]) == 'self.timedata.accumulated_steps']
    ctx.check('check_offset_steer|accumulate', len(adds) == 1 and S(b.call_args(adds[0])[1]) == 'NtpDuration::abs(NtpDuration::from_seconds(change))',
              'accumulation is %s' % [S(b.call_args(s)[1]) for s in adds], sample=[S(b.call_args(s)[1]) for s in adds])
    for s in adds:
        ctx.guard(b, s, 'after-startup', outs, key='check_offset_steer|accumulate|after-startup')
        ctx.check('check_offset_steer|accumulate-before-tests', b.can_reach(s.bb, acc.bb) and b.can_reach(s.bb, table['single_step_panic_threshold'].bb)
                  and not b.can_reach(acc.bb, s.bb), 'accumulation happens after the threshold tests', s.where())
    # exceeded edges: is_within false (both), is_some_and true -> diverge
    exits = some(b.calls(r'std::process::exit$'), 'process::exit calls')
    exit_blocks = {s.bb for s in exits}
    for name, pred in (('startup-exceeded', fact_call(r'StepThreshold::is_within$', False, [r'startup_step_panic_threshold$'])),
                       ('single-exceeded', fact_call(r'StepThreshold::is_within$', False, [r'single_step_panic_threshold$'])),
                       ('accumulated-exceeded', fact_call(r'Option::is_some_and$', True, [r'accumulated_step_panic_threshold$']))):
        n, region = region_after(b, pred)
        rets = [r for r in b.returns() if r.bb in region]
        ctx.check('check_offset_steer|%s|diverges' % name, n == 1 and not rets and any(x in region for x in exit_blocks),
                  'the `%s` edge can return to the caller (the step would be applied)' % name, sample={'edges': n, 'returns_reachable': len(rets)})
    for s in exits:
        ctx.check('check_offset_steer|%s|no-continuation' % site_desc(b, s), s.data.get('t') is None, 'process::exit has a continuation', s.where())


def r4(ctx):
    ctx.rule('C01-R4', 'StepThreshold::is_within = forward.is_none_or(|v| duration < v) && backward.is_none_or(|v| duration > -v)')
    P = ctx.P
    b = P.body('ntp_proto::config::StepThreshold::is_within')
    calls = some(b.calls(r'Option::is_none_or$'), 'is_none_or calls')
    flds = sorted(S(b.call_args(s)[0]) for s in calls)
    ctx.check('is_within|fields', flds == ['self.backward', 'self.forward'], 'is_within tests %s' % flds, sample=flds)
    cls = P.closures_of(b)
    forms = sorted(canon_cmp_str(v) for c in cls for _, v in ret_assigns(c))
    ctx.check('is_within|comparisons', forms == ['(NtpDuration::neg(v) < duration)', '(duration < v)'], 'comparisons are %s' % forms, sample=forms)
    # conjunction: result true requires both
    for s, v in ret_assigns(b):
        if v == '0':
            continue
        ok = b.must_pass(s.bb, fact_call(r'Option::is_none_or$', True, [r'^self\.forward$'])) or 'self.forward' in v
        ok2 = b.must_pass(s.bb, fact_call(r'Option::is_none_or$', True, [r'^self\.backward$'])) or 'self.backward' in v
        ctx.check('is_within|both-required', ok and ok2, 'is_within can be true without both bounds holding', s.where(), sample=v[:120])
    pairing = {}
    for s in calls:
        fld = S(b.call_args(s)[0])
        clo = S(b.call_args(s)[1])
        for c in cls:
            if c.id.split('::', 1)[1] in clo:
                pairing[fld] = [canon_cmp_str(v) for _, v in ret_assigns(c)]
    ctx.check('is_within|pairing', pairing == {'self.forward': ['(duration < v)'], 'self.backward': ['(NtpDuration::neg(v) < duration)']},
              'bound/comparison pairing is %s' % pairing, sample=pairing)


def r5(ctx):
    ctx.rule('C01-R5', 'in_startup starts true and is set false only in update_clock, after the steering calls, on the consensus path')
    P = ctx.P
    ws = P.field_writers('in_startup', r'KalmanClockController$')
    where = sorted((bd.npath, written_value(bd, s)) for bd, s in ws)
    ctx.check('in_startup|writers', where == [(K + '::update_clock', '0')], 'writers of in_startup: %s' % where, sample=where)
    inits = [x for x in field_inits(P, r'kalman::KalmanClockController$', 'in_startup') if not x[0].npath.endswith('Clone>::clone')]
    ctx.check('in_startup|initial', [S(t) for _, _, t in inits] == ['1'], 'initial in_startup: %s' % [S(t) for _, _, t in inits], sample=[S(t) for _, _, t in inits])
    u = P.body(K + '::update_clock')
    for bd, s in ws:
        steer = [c.bb for c in u.calls(r'KalmanClockController::steer_offset$')]
        ctx.check('update_clock|startup-cleared-after-steer', all(not u.can_reach(s.bb, x) for x in steer) and all(u.can_reach(x, s.bb) for x in steer),
                  'in_startup is cleared before steering', s.where())
        cons = fact_is(r'^combiner::combine\(', 'Some')
        ctx.guard(u, s, 'consensus', cons, key='update_clock|startup-cleared|consensus')
        # ... and on EVERY path of a successful update: otherwise later steps keep being judged by the
        # (lenient) startup threshold and are never accumulated
        starts = edge_targets(u, cons)
        ok = len(starts) == 1 and all(must_pass_block_from(u, starts[0], r.bb, [s.bb]) for r in u.returns())
        ctx.check('update_clock|startup-cleared-on-every-consensus-path', ok,
                  'a successful clock update can return without leaving startup mode (in_startup = false is skipped on some path), so the '
                  'single-step and accumulated thresholds are not applied to later steps', s.where(), sample={'consensus_edges': len(starts)})


def r6(ctx):
    ctx.rule('C01-R6', 'the accumulated-step counter persists: TimeSnapshot.accumulated_steps is written only by check_offset_steer (+= |change|) and at '
             'construction, and no method of the controller overwrites self.timedata as a whole (a stale copy written back after steering would erase the step just counted)')
    P = ctx.P
    ws = sorted({bd.npath for bd, st in P.field_writers('accumulated_steps', r'system::TimeSnapshot$')})
    ctx.check('who-writes-accumulated_steps', ws == [K + '::check_offset_steer'], 'writers of TimeSnapshot.accumulated_steps: %s' % ws, sample=ws)
    whole = []
    n = 0
    for b in P.bodies.values():
        if b.raw['promoted'] is not None or b.krate != 'ntp_proto':
            continue
        for st in b.assigns(lambda pl: bool(pl['p'])):
            last = st.data['place']['p'][-1] if st.kind in ('assign', 'calldest') or 'place' in st.data else None
            if isinstance(last, dict) and last.get('f') == 'timedata' and str(last.get('of', '')).endswith('KalmanClockController'):
                whole.append('%s @ %s' % (b.npath.split('::')[-1], st.where()))
        n += 1
    ctx.check('no-whole-timedata-write', not whole, 'self.timedata is overwritten as a whole in %s: accumulated_steps (and the other counters) can be reset to a stale value' % whole, sample=n)


RULES = [r1, r2, r3, r4, r5, r6]
FLOORS = {'C01-R1': 2, 'C01-R2': 6, 'C01-R3': 14, 'C01-R4': 4, 'C01-R5': 4, 'C01-R6': 2}
