"""C32 — time arithmetic is exact, era-safe and never panics (operator discipline)."""
import re
from engine.rulelib import *
from engine.run import site_desc

EXPLANATION = (
    "ARITH/TYPE rules: inside the arithmetic impls of NtpTimestamp/NtpDuration/PollInterval (ntp-proto) and Timestamp/Duration "
    "(statime-base) every integer operation on the wrapped representation is an explicit wrapping_* (timestamps) or saturating_* "
    "(durations, poll exponents) call: raw +, -, *, unary -, `abs()` and raw `/` (overflow for MIN / -1) on the representation are "
    "reported; the difference of two timestamps is wrapping_sub reinterpreted as signed; scalar division sites only divide by "
    "non-zero literals; the compile_fail witness that timescales do not mix is present in statime-base."
    ' Wire formats: the 32-bit duration codecs read unsigned and shift symmetrically; from_seconds shifts the seconds into the upper half only when they fit an i32 and saturates otherwise.'
)
NOT_DECIDED = ["one-part-per-billion conversion bounds and wire-format tolerances (numeric)",
               "division by a zero scalar panics as every Rust integer division does; all call sites divide by non-zero literals (checked)"]

TT = 'ntp_proto::time_types'
SB = 'statime_base::time_types'
RAW = {'Add', 'Sub', 'Mul', 'AddWithOverflow', 'SubWithOverflow', 'MulWithOverflow', 'AddUnchecked', 'SubUnchecked', 'MulUnchecked', 'Shl'}


def impl_bodies(P, regex):
    return sorted([b for b in P.bodies.values() if b.raw['promoted'] is None and re.search(regex, b.path)], key=lambda b: b.path)


def raw_ops(b, rep_re):
    """Raw arithmetic statements whose operands touch the wrapped representation."""
    out = []
    for j, blk in enumerate(b.blocks):
        if blk['cleanup']:
            continue
        for st in blk['stmts']:
            if st['k'] != 'assign':
                continue
            rv = st['rv']
            if rv['k'] == 'binop' and rv['op'] in RAW | {'Div', 'Rem'}:
                l, r = S(b.operand_term(rv['l'])), S(b.operand_term(rv['r']))
                if re.search(rep_re, l) or re.search(rep_re, r):
                    out.append((rv['op'], '(%s %s %s)' % (l, rv['op'], r), st['line']))
            elif rv['k'] == 'unop' and rv['op'] == 'Neg':
                o = S(b.operand_term(rv['o']))
                if re.search(rep_re, o):
                    out.append(('Neg', '-(%s)' % o, st['line']))
        t = blk['term']
        if t['k'] == 'call' and t['func']['k'] == 'const' and 'fn' in t['func']:
            nm = norm_path(t['func']['fn']['def'])
            if re.search(r'^core::num::(abs|pow|neg)$', nm) and any(re.search(rep_re, S(b.operand_term(a))) for a in t['args']):
                out.append(('call:' + nm.split('::')[-1], S(b.call_term(t)), t['line']))
    return out


def r1(ctx):
    ctx.rule('C32-R1', 'operator whitelist: arithmetic impls (Add/Sub/Neg/Mul/Div and their *Assign forms, abs, PollInterval::{inc,dec,force_inc}) '
             'never apply raw +, -, *, unary -, abs() or / to the wrapped integer; they call wrapping_* (NtpTimestamp, statime Timestamp) or '
             'saturating_* (NtpDuration, PollInterval, statime Duration)')
    P = ctx.P
    sets = [
        ('NtpTimestamp', r'^<ntp_proto::time_types::NtpTimestamp as core::ops::arith::(Add|Sub|AddAssign|SubAssign)', r'\.timestamp\b', 'wrapping_'),
        ('NtpDuration', r'^<ntp_proto::time_types::NtpDuration as core::ops::arith::(Add|Sub|Neg|Mul|Div|AddAssign|SubAssign|MulAssign|DivAssign)|'
                        r'^ntp_proto::time_types::<impl core::ops::arith::Mul<ntp_proto::time_types::NtpDuration> for \w+>::mul$|^ntp_proto::time_types::NtpDuration::abs$', r'\.duration\b', 'saturating_'),
        ('PollInterval', r'^ntp_proto::time_types::PollInterval::(inc|dec|force_inc)$', r'self\.0\b', 'saturating_'),
        ('statime Timestamp', r'^<statime_base::time_types::Timestamp<A> as core::ops::arith::(Add|Sub|AddAssign|SubAssign)', r'\.0\b', 'wrapping_'),
        ('statime Duration', r'^<statime_base::time_types::Duration as core::ops::arith::(Add|Sub|Neg|Mul|Div|AddAssign|SubAssign|MulAssign|DivAssign)|'
                             r'^statime_base::time_types::<impl core::ops::arith::Mul<statime_base::time_types::Duration> for \w+>::mul$|^statime_base::time_types::Duration::abs$', r'\.0\b', 'saturating_'),
    ]
    for name, rx, rep, want in sets:
        bodies = impl_bodies(P, rx)
        ctx.check('%s|impls-found' % name, len(bodies) >= 3, '%s arithmetic impls found: %d' % (name, len(bodies)), sample=[b.path[-60:] for b in bodies][:6])
        for b in bodies:
            ops = raw_ops(b, rep)
            key = '%s|%s' % (name, re.sub(r'ntp_proto::time_types::|statime_base::time_types::|core::ops::arith::', '', b.path))
            ctx.check(key + '|no-raw-arithmetic', not ops,
                      'raw integer arithmetic on the representation: %s (wraps in release builds / panics with overflow checks or for MIN / -1; the '
                      'property requires %s semantics)' % (', '.join(o[1] for o in ops), want.rstrip('_')), '%s:%s' % (b.file, ops[0][2] if ops else b.line),
                      sample=[o[1] for o in ops] or 'ok')
            good = [c for c in b.calls(r'core::num::(%s|checked_|overflowing_)\w+$' % want)]
            gb = {c.bb for c in good}
            other = [c for c in b.calls(r'core::num::(wrapping_|saturating_)\w+$') if c.bb not in gb]
            delegates = bool(b.calls(r'ntp_proto::time_types::NtpDuration as core::ops::arith::|statime_base::time_types::Duration as core::ops::arith::'))
            ctx.check(key + '|uses-%s' % want.rstrip('_'), (len(good) >= 1 or delegates) and not other,
                      'expected %s* operations, found %s' % (want, [short_name(b.callee(c)['def']) for c in b.calls(r'core::num::')]), '%s:%s' % (b.file, b.line),
                      sample=[short_name(b.callee(c)['def']) for c in b.calls(r'core::num::')])


def r2(ctx):
    ctx.rule('C32-R2', 'timestamp difference is wrapping_sub reinterpreted as signed (ntp-proto: `as i64`, statime-base: cast_signed); every call of '
             'NtpDuration / scalar passes a non-zero literal divisor')
    P = ctx.P
    b = P.body_full('<ntp_proto::time_types::NtpTimestamp as core::ops::arith::Sub>::sub')
    v = [x for _, x in ret_assigns(b)]
    ctx.check('NtpTimestamp-NtpTimestamp', v == ['NtpDuration{duration: (num::wrapping_sub(self.timestamp, rhs.timestamp) as i64)}'], 'difference is %s' % v, sample=v)
    sb = [x for x in P.bodies.values() if x.raw['promoted'] is None and x.path == '<statime_base::time_types::Timestamp<A> as core::ops::arith::Sub>::sub']
    for x in sb:
        v = [y for _, y in ret_assigns(x)]
        ctx.check('statime Timestamp-Timestamp', len(v) == 1 and re.match(r'^Duration\{0: num::cast_signed\(num::wrapping_sub\(self\.0, rhs\.0\)\)\}$', v[0]) is not None, 'difference is %s' % v, sample=v)
    ctx.check('statime Timestamp-Timestamp|found', len(sb) == 1, 'impl not found', sample=len(sb))
    n = 0
    for body in P.bodies.values():
        if body.raw['promoted'] is not None or body.krate not in ('ntp_proto', 'ntpd', 'statime_csptp'):
            continue
        for c in body.calls(r'NtpDuration as core::ops::arith::(Div|DivAssign)>::(div|div_assign)$'):
            d = const_int(body.call_args(c)[1])
            n += 1
            ctx.check('div-site|%s|%s' % (body.npath, site_desc(body, c)), d is not None and d not in (0, -1), 'NtpDuration divided by non-literal or zero/-1 divisor `%s`' % S(body.call_args(c)[1]),
                      c.where(), sample=S(body.call_args(c)[1]))
    ctx.check('div-sites|found', n >= 1, 'no NtpDuration division sites found', sample=n)


def r3(ctx):
    ctx.rule('C32-R3', 'type-level: statime-base keeps a compile_fail doc-test showing that timestamps of different timescales cannot be subtracted '
             '(Timestamp<A> - Timestamp<B> has no impl): the only Sub impls for Timestamp<A> take Timestamp<A> or Duration')
    P = ctx.P
    subs = sorted(im['trait'] for im in P.impls if im['trait'] and strip_g(im['self_ty']) == 'statime_base::time_types::Timestamp' and 'Sub' in im['trait'] and 'SubAssign' not in im['trait'])
    ctx.check('statime Timestamp|sub-impls', set(subs) == {'core::ops::arith::Sub', 'core::ops::arith::Sub<statime_base::time_types::Duration>'}, 'Sub impls for Timestamp<A>: %s' % subs, sample=subs)


def strip_g(s):
    from engine.core import strip_generics
    return strip_generics(s)


def seconds_saturation(ctx):
    """NtpDuration::from_seconds (shared with C38): the whole seconds are shifted into the upper 32 bits only when they fit an i32; everything
    else saturates. Accepted proofs of `fits`: i32::try_from(i) is Ok, or i <= 2147483647 (i < 2147483648) together with i >= -2147483648."""
    b = ctx.P.body('ntp_proto::time_types::NtpDuration::from_seconds')
    shl = []
    for j, blk in enumerate(b.blocks):
        for st in blk['stmts']:
            if st['k'] == 'assign' and st['rv'].get('k') == 'binop' and st['rv'].get('op') in ('Shl', 'ShlUnchecked') and const_int(b.operand_term(st['rv']['r'])) == 32:
                shl.append((j, S(b.operand_term(st['rv']['l']))))
    ctx.check('from_seconds|shift-sites', len(shl) == 1, 'shift-by-32 sites in from_seconds: %d' % len(shl), sample=[v for _, v in shl])
    for j, v in shl:
        I = '^' + re.escape(v) + '$'
        fits = fact_is(r'^num::try_from\(%s\)$' % re.escape(v), 'Ok')
        hi = any_of(fact_cmp('Le', I, r'^(MAX=)?2147483647$'), fact_cmp('Lt', I, r'^2147483648$'))
        lo = any_of(fact_cmp('Ge', I, r'^(MIN=)?-2147483648$'), fact_cmp('Gt', I, r'^-2147483649$'))
        ok = b.must_pass(j, fits) or (b.must_pass(j, hi) and b.must_pass(j, lo))
        ctx.check('from_seconds|shift-only-when-seconds-fit-i32', ok, 'whole seconds `%s` are shifted into the upper 32 bits without a guard proving they fit an i32 (guards: %s): '
                  'a value at the boundary wraps into the sign bit instead of saturating' % (v[:60], guards_S(b, j)[-3:]), sample=guards_S(b, j)[-3:])
    lit = one(b.aggregates(r'NtpDuration$'), 'NtpDuration literal in from_seconds')
    v = S(b.rvalue_term(lit.data['rv']))
    ctx.check('from_seconds|saturates', 'MAX=9223372036854775807' in v and 'MIN=-9223372036854775808' in v, 'from_seconds result %s' % v[-120:], sample=v[-100:])


def r4(ctx):
    ctx.rule('C32-R4', 'wire formats: NtpDuration::from_bits_short / from_bits_time32 read an unsigned u32 and shift left by the amount to_bits_short / '
             'to_bits_time32 shift right (16 / 4), so every encodable non-negative duration decodes to within one unit and no wire value decodes to a '
             'negative duration (which the encoders would refuse with a panic); NtpTimestamp::{from_bits,to_bits} are the 64 bits as they are')
    from rules import C24
    C24.wire_codecs(ctx)
    seconds_saturation(ctx)


RULES = [r1, r2, r3, r4]
FLOORS = {'C32-R1': 60, 'C32-R2': 3, 'C32-R3': 1, 'C32-R4': 8}
