"""C41 — PTP messages survive a serialise/parse round trip (structural part)."""
import re
from engine.rulelib import *
from engine.core import subterms, unlet, short_name
from engine.run import site_desc
from engine import panic

EXPLANATION = (
    "TABLE/PRED/PANIC rules over statime-wire: (R1) the message-type decode table equals the enum's discriminants, content_type maps "
    "each body variant to the message type of the same name and MessageBody::deserialize builds variant V only under message_type is V; "
    "the header length constants agree (Header::wire_size, the split in Message::serialize, the minimum and slice start in "
    "Message::deserialize); every to_primitive/from_primitive pair is mutually inverse on all named values. (R2) layout agreement: for "
    "every struct with a serialiser and a parser, the byte range of the buffer each field is written to equals the byte range it is "
    "parsed from, ranges of different fields are disjoint and lie within the checked length; header flag bits (byte, bit) agree between "
    "writer and reader. (R3) the minimum TLV size admitted by Tlv::deserialize, by the TlvSet::deserialize loop and by the TLV iterator "
    "are equal and equal to the TLV header size. (R4) no panic-capable construct reachable from Message::deserialize / serialize / "
    "wire_size / TlvSet::tlvs is unproven."
)
NOT_DECIDED = [
    "value-level equality of the round trip (integer conversions, Timestamp 48-bit seconds, Cow contents) is not decided; the rules decide that writer and reader use the same byte ranges, bit positions and code tables",
    "reserved bytes that the serialiser leaves untouched or zeroes (announce byte 12, header bytes 16..20 and 32) and lossy catch-all variants (ManagementAction::Reserved, ClockAccuracy::Reserved) make 'parse then re-serialise' differ from the input by design; not counted",
    "values an API user can construct but the parser never produces (TlvType::Reserved(1), odd-length TLV values, SdoId above 12 bits) are outside the decided part",
]
W = 'statime_wire::'
ACC = r'^core::(slice|array)::(index::)?(index|index_mut|get|get_mut)$|::Index(Mut)?::index(_mut)?$|^core::slice::\{impl#0\}::(get|get_mut)$'
WRAP = r'Option::ok_or$|Try::branch$|::branch$|::try_into$|Result::unwrap$|::as_ref$|::into$|::deref(_mut)?$'


RESOLVE = {}    # per struct: 'slice::len(self.f)' -> N for fields of type [u8; N]
EXTENT = {}     # type short name -> number of leading bytes its parser / serialiser touches


def cint(t):
    if t is None:
        return None
    v = const_int(t)
    if v is None:
        v = RESOLVE.get(S(t))
    return v


def clamp(call_name, r):
    """A sub-slice handed to T::serialize / T::deserialize is used only up to T's extent."""
    m = re.search(r'(\w+)::(serialize|deserialize)$', call_name)
    if m and r is not None and r[0] != '?' and m.group(1) in EXTENT:
        e = r[0] + EXTENT[m.group(1)]
        if r[1] is None or r[1] == 'var' or e < r[1]:
            return (r[0], e)
    return r


def coalesce(rs):
    """Merge adjacent constant ranges: {(0,1),(1,2)} -> {(0,2)}."""
    fixed = sorted(r for r in rs if isinstance(r[0], int) and isinstance(r[1], int))
    rest = {r for r in rs if not (isinstance(r[0], int) and isinstance(r[1], int))}
    out = []
    for r in fixed:
        if out and out[-1][1] == r[0]:
            out[-1] = (out[-1][0], r[1])
        else:
            out.append(r)
    return set(out) | rest


def buf_range(t, names=('buffer',)):
    """(start, end|None) of the sub-slice of the function's buffer parameter a term denotes; None if it is not one."""
    t = unlet(t)
    if t is None:
        return None
    k = t[0]
    if k in ('param', 'var') and t[1] in names:
        return (0, None)
    if k == 'field' and t[2] == '0':
        inner = unlet(t[1])
        if inner is not None and inner[0] == 'as' and inner[2] in ('Continue', 'Some', 'Ok'):
            return buf_range(inner[1], names)
        if inner is not None and inner[0] == 'call' and re.search(r'::split_at(_mut)?(_checked)?$', inner[1]):
            base, n = buf_range(inner[2][0], names), cint(inner[2][1])
            if base is not None and n is not None:
                return (base[0], base[0] + n)
        return None
    if k == 'field' and t[2] == '1':
        inner = unlet(t[1])
        if inner is not None and inner[0] == 'call' and re.search(r'::split_at(_mut)?(_checked)?$', inner[1]):
            base, n = buf_range(inner[2][0], names), cint(inner[2][1])
            if base is not None and n is not None:
                return (base[0] + n, base[1])
        return None
    if k == 'cast':
        return buf_range(t[1], names)
    if k == 'index':
        base, i = buf_range(t[1], names), cint(t[2])
        if base is not None and i is not None:
            return (base[0] + i, base[0] + i + 1)
        return None
    if k == 'call':
        name = t[1]
        if re.search(WRAP, short_name(name)) and t[2]:
            return buf_range(t[2][0], names)
        if re.search(r'(^|::)(index|index_mut|get|get_mut)$', short_name(name)) and len(t[2]) == 2:
            base = buf_range(t[2][0], names)
            if base is None:
                return None
            r = unlet(t[2][1])
            if r is not None and r[0] == 'agg':
                f = dict(r[3])
                s = cint(f.get('start')) if 'start' in f else 0
                e = cint(f.get('end')) if 'end' in f else None
                if s is None or base[0] == '?':
                    return ('?', '?')
                if 'end' in f and e is None:
                    return (base[0] + s, 'var')
                return (base[0] + s, base[0] + e if e is not None else base[1])
            i = cint(r)
            if i is not None:
                return (base[0] + i, base[0] + i + 1)
            return ('?', '?')
    return None


def bounded(r):
    return r is not None and r[1] is not None and r != (0, None)


def ranges_of(t, names=('buffer',)):
    """Maximal sub-terms of t that denote bounded byte ranges of the buffer."""
    out = set()

    def walk(x):
        x = unlet(x)
        if x is None:
            return
        r = buf_range(x, names)
        if r is not None:
            if r != (0, None):
                out.add(r)
            if r[1] == 'var':
                # a length taken from the buffer: the bytes it is read from belong to the same field
                for sub in subterms(x):
                    if sub[0] == 'agg' and sub[1].startswith('core::ops::range::'):
                        for nm, e in sub[3]:
                            if nm == 'end' and const_int(e) is None:
                                walk(e)
            return
        k = x[0]
        if k in ('field', 'as', 'cast', 'discr', 'len', 'repeat', 'slice'):
            walk(x[1])
        elif k == 'index':
            walk(x[1]); walk(x[2])
        elif k == 'call':
            nm = short_name(x[1])
            if re.search(r'\w+::deserialize$', nm) and len(x[2]) == 1 and buf_range(x[2][0], names) is not None:
                out.add(clamp(nm, buf_range(x[2][0], names)))
                return
            for a in x[2]:
                walk(a)
        elif k == 'binop':
            walk(x[2]); walk(x[3])
        elif k == 'unop':
            walk(x[2])
        elif k == 'agg':
            for _, a in x[3]:
                walk(a)
        elif k == 'phi':
            for a in x[2]:
                walk(a)
    walk(t)
    return out


def self_fields(t):
    return set(re.findall(r'\bself\.(\w+)', S(t)))


def ser_map(b):
    """field -> set of byte ranges written from it; plus '<const>' for constant fills."""
    m = {}

    def add(fs, rs):
        for f in fs:
            m.setdefault(f, set()).update(rs)
    for c in b.calls():
        name = short_name(b.callee(c)['def'])
        if re.search(r'(^|::)(index|index_mut|get|get_mut|len|is_empty)$', name) or re.search(WRAP, name) or re.search(r'from_residual$|split_at', name):
            continue
        args = b.call_args(c)
        rs, fs = set(), set()
        for a in args:
            r = buf_range(a)
            if r is not None and re.search(r'\w+::serialize$', name):
                r = clamp(name, r)
            if r is not None and r != (0, None):
                rs.add(r)
            else:
                fs |= self_fields(a)
        if rs:
            add(fs or {'<const>'}, rs)
    for s in b.assigns(lambda pl: len(pl['p']) >= 2 and pl['p'][0] == '*' and isinstance(pl['p'][1], dict) and 'idx' in pl['p'][1]):
        pl = s.data['place'] if s.kind == 'assign' else s.data['dest']
        if N(b.local_term(pl['l'])) != 'buffer':
            continue
        i = cint(b.local_term(pl['p'][1]['idx']))
        v = b.rvalue_term(s.data['rv']) if s.kind == 'assign' else None
        fs = self_fields(v) if v is not None else set()
        add(fs or {'<const>'}, {(i, i + 1)} if i is not None else {('?', '?')})
    for s in b.assigns(lambda pl: bool(pl['p']) and pl['p'][0] == '*' and len(pl['p']) == 1):
        pl = s.data['place'] if s.kind == 'assign' else s.data['dest']
        r = buf_range(b.local_term(pl['l']))
        if r is not None and r != (0, None) and s.kind == 'assign':
            fs = self_fields(b.rvalue_term(s.data['rv']))
            add(fs or {'<const>'}, {r})
    return m


def de_map(b, adt_re):
    """[(site, {field: ranges})] for each struct literal; local arrays filled from the buffer carry their source range."""
    carried = {}
    for c in b.calls(r'slice::copy_from_slice$'):
        dst, src = b.call_args(c)
        r = buf_range(src)
        d = unlet(dst)
        if r is not None and bounded(r) and d is not None and d[0] == 'call' and d[2]:
            base = d[2][0]
            nm = N(base)
            if re.match(r'^\w+$', nm):
                carried.setdefault(nm, set()).add(r)
    out = []
    for s in b.aggregates(adt_re):
        m = {}
        for f, o in zip(s.data['rv']['fields'], s.data['rv']['ops']):
            t = b.operand_term(o)
            rs = ranges_of(t)
            for nm, r in carried.items():
                if re.search(r'\b%s\b' % re.escape(nm), N(t)):
                    rs |= r
            m[f] = rs
        out.append((s, m))
    return out


# struct -> (serialiser, parser, parsed ADT regex); found by name on every run
def pairs(P):
    out = []
    for b in P.bodies_matching(r'^statime_wire::.*::(serialize|serialize_content|serialize_header)$'):
        ty = b.npath.rsplit('::', 1)[0]
        if ty.endswith('::_') or '<' in ty:
            continue
        want = {'serialize': 'deserialize', 'serialize_content': 'deserialize_content', 'serialize_header': 'deserialize_header'}[b.npath.rsplit('::', 1)[1]]
        de = P.bodies_matching('^' + re.escape(ty) + '::' + want + '$')
        if len(de) == 1:
            out.append((ty, b, de[0]))
    return sorted(out, key=lambda x: x[0])


LAYOUT_SKIP = {
    'statime_wire::messages::Message': 'composite of header/body/suffix; its offsets are the header-length constants checked in R1',
    'statime_wire::messages::MessageBody': 'pure dispatch on the variant; checked in R1',
    'statime_wire::common::tlv::TlvSet': 'opaque byte string copied verbatim; structure checked in R3',
}


def r1(ctx):
    ctx.rule('C41-R1', 'code tables and constants agree: MessageType::try_from == repr discriminants; content_type(V) == MessageType::V; MessageBody::deserialize builds V only '
             'under message_type is V from VMessage::deserialize_content; header length 34 used consistently; to_primitive and from_primitive are inverse on named values')
    P = ctx.P
    tf, dflt = decode_table(P.body('<statime_wire::messages::MessageType as core::convert::TryFrom>::try_from'))
    adt = P.adt(W + 'messages::MessageType')
    for v in adt['variants']:
        n = int(v['discr'])
        ctx.check('MessageType|try_from|%s' % v['name'], tf.get(n) == 'Result::Ok{0: MessageType::%s{}}' % v['name'], 'try_from(%d) = %s' % (n, tf.get(n)), sample=tf.get(n))
    ctx.check('MessageType|try_from|no-extra', len(tf) == len(adt['variants']) and all(d.startswith('Result::Err') for d in dflt), 'decode table has %d entries for %d variants; default %s' % (len(tf), len(adt['variants']), dflt), sample=len(tf))
    ct = encode_table(P.body(W + 'messages::MessageBody::content_type'))
    body_adt = P.adt(W + 'messages::MessageBody')
    for v in body_adt['variants']:
        ctx.check('content_type|%s' % v['name'], ct.get(v['name']) == 'MessageType::%s{}' % v['name'], 'content_type(%s) = %s' % (v['name'], ct.get(v['name'])), sample=ct.get(v['name']))
    d = P.body(W + 'messages::MessageBody::deserialize')
    seen = set()
    for s in d.aggregates(r'messages::MessageBody$'):
        v = s.data['rv']['variant']
        seen.add(v)
        ctx.guard(d, s, 'type-matches', fact_is(r'^message_type$', [v]), key='MessageBody::deserialize|%s|under-matching-type' % v)
        src = S(d.operand_term(s.data['rv']['ops'][0]))
        ctx.check('MessageBody::deserialize|%s|source' % v, re.match(r'^\(Result::branch\(\w+Message::deserialize_content\(buffer\)\) as Continue\)\.0$', src) is not None, 'payload %s' % src, s.where(), sample=src)
    ctx.check('MessageBody::deserialize|all-variants', seen == {v['name'] for v in body_adt['variants']}, 'variants built: %s' % sorted(seen), sample=len(seen))
    # header byte 0: low nibble carries the message type in both directions
    sh = P.body(W + 'messages::header::Header::serialize_header')
    dh = P.body(W + 'messages::header::Header::deserialize_header')
    b0 = [written_value(sh, s) for s in sh.assigns(lambda pl: len(pl['p']) >= 2 and pl['p'][0] == '*' and isinstance(pl['p'][1], dict) and 'idx' in pl['p'][1])
          if cint(sh.local_term((s.data['place'] if s.kind == 'assign' else s.data['dest'])['p'][1]['idx'])) == 0]
    ctx.check('header|byte0|type-nibble-written', len(b0) == 1 and re.search(r'\| \(\(discr\(content_type\) as u8\) & 15\)\)$', b0[0]) is not None, 'byte 0 written as %s' % b0, sample=b0)
    mt = [S(t) for _, _, t in field_inits(P, r'header::DeserializedHeader$', 'message_type', [dh])]
    ctx.check('header|byte0|type-nibble-read', len(mt) == 1 and re.search(r'try_into\(\(buffer\[0\] & 15\)\)', mt[0]) is not None, 'message_type parsed as %s' % mt, sample=mt)
    # header length constants
    ws = [v for _, v in ret_assigns(P.body(W + 'messages::header::Header::wire_size'))]
    ctx.check('header-length|wire_size', ws == ['34'], 'Header::wire_size returns %s' % ws, sample=ws)
    ms = P.body(W + 'messages::Message::serialize')
    sp = [S(ms.call_args(c)[1]) for c in ms.calls(r'split_at_mut_checked$')]
    ctx.check('header-length|serialize-split', len(sp) == 2 and sp[0] == '34' and sp[1] == 'MessageBody::wire_size(self.body)', 'Message::serialize splits at %s' % sp, sample=sp)
    hl = [S(a) for c in ms.calls(r'Header::serialize_header$') for a in ms.call_args(c)]
    ctx.check('header-length|content-length-arg', len(hl) == 4 and hl[1] == 'MessageBody::content_type(self.body)' and hl[2] == '(MessageBody::wire_size(self.body) + TlvSet::wire_size(self.suffix))',
              'serialize_header called with %s' % hl[1:3], sample=hl[1:3])
    ml = [c for c in sh.calls(r'::try_from$')]
    ctx.check('header-length|message-length-sum', len(ml) == 1 and S(sh.call_args(ml[0])[0]) == '(content_length + Header::wire_size(self))', 'message length computed from %s' % [S(sh.call_args(c)[0]) for c in ml], sample=len(ml))
    md = P.body(W + 'messages::Message::deserialize')
    g = [c for c in md.calls(r'slice::get$')]
    gs = [S(md.call_args(c)[1]) for c in g]
    ctx.check('header-length|deserialize-content-slice', len(gs) == 2 and re.match(r'^Range\{start: 34, end: \(\(Result::branch\(Header::deserialize_header\(buffer\)\) as Continue\)\.0\.message_length as usize\)\}$', gs[0]) is not None,
              'content slice %s' % gs[:1], sample=gs[:1])
    ctx.check('header-length|deserialize-suffix-slice', len(gs) == 2 and re.match(r'^RangeFrom\{start: MessageBody::wire_size\(', gs[1]) is not None, 'suffix slice %s' % gs[1:], sample=gs[1:])
    if g:
        ctx.guard(md, g[0], 'length>=34', fact_cmp('Ge', r'\.message_length$', r'^34$'), key='header-length|deserialize-minimum')
    # primitive code tables
    for t in ('common::clock_accuracy::ClockAccuracy', 'common::time_source::TimeSource', 'messages::management::ManagementAction', 'common::tlv::TlvType'):
        short = t.split('::')[-1]
        to = encode_table(P.body(W + t + '::to_primitive'))
        fr, df = decode_table(P.body(W + t + '::from_primitive'))
        named = {k: int(v) for k, v in to.items() if re.match(r'^\d+$', v)}
        ctx.check('%s|named-count' % short, len(named) >= 5, 'named values found: %d' % len(named), sample=len(named))
        catchall = {re.sub(r'\{.*', '', x).split('::')[-1] for x in df}
        for k, n in sorted(named.items()):
            if k in catchall:
                continue
            ctx.check('%s|from(to(%s))' % (short, k), fr.get(n) == '%s::%s{}' % (short, k), 'to_primitive(%s) = %d but from_primitive(%d) = %s' % (k, n, n, fr.get(n, 'default %s' % df)), sample=n)
        for n, v in sorted(fr.items()):
            m = re.match(r'^%s::(\w+)\{\}$' % short, v)
            ctx.check('%s|to(from(%d))' % (short, n), m is not None and named.get(m.group(1)) == n, 'from_primitive(%d) = %s but to_primitive gives %s' % (n, v, named.get(m.group(1)) if m else None), sample=v)
        for x in df:
            ok = re.match(r'^%s::\w+\{(0: (value|\(value - 128\)))?\}$' % short, x) is not None
            ctx.check('%s|default|%s' % (short, re.sub(r'\{.*', '', x)), ok, 'catch-all arm produces %s' % x, sample=x)


def r2(ctx):
    ctx.rule('C41-R2', 'layout agreement: for each struct with serialize*/deserialize*, every field is written to exactly the byte range(s) it is parsed from; ranges of '
             'different fields do not overlap (flag bytes excepted, checked bitwise); ranges lie inside the length the parser checks')
    P = ctx.P
    ps = pairs(P)
    ctx.check('pairs|count', len(ps) >= 17, 'serialiser/parser pairs found: %d' % len(ps), sample=[p[0].split('::')[-1] for p in ps])

    def resolve_for(ty):
        RESOLVE.clear()
        for v in P.adt(ty)['variants']:
            for f in v['fields']:
                m = re.match(r'^\[u8; (\d+)\]$', f['ty'])
                if m:
                    RESOLVE['slice::len(self.%s)' % f['name']] = int(m.group(1))
                    RESOLVE['array::len(self.%s)' % f['name']] = int(m.group(1))
    # extents of the fixed-size leaf types first (their own ranges are literal), so that a wider sub-slice handed to them is clamped
    EXTENT.clear()
    for ty, sb, db in ps:
        short = ty.split('::')[-1]
        if ty in LAYOUT_SKIP or short in ('Tlv', 'Header') or short.endswith('Message'):
            continue
        resolve_for(ty)
        ends = [r[1] for rs in ser_map(sb).values() for r in rs] + [r[1] for _, dm in de_map(db, '::' + re.escape(short) + '$') for rs in dm.values() for r in rs]
        if ends and all(isinstance(e, int) for e in ends):
            EXTENT[short] = max(ends)
    ctx.check('extents', EXTENT == {'ClockIdentity': 8, 'ClockQuality': 4, 'PortIdentity': 10, 'TimeInterval': 8, 'Timestamp': 10}, 'leaf type extents %s' % EXTENT, sample=dict(EXTENT))
    for ty, sb, db in ps:
        short = ty.split('::')[-1]
        if ty in LAYOUT_SKIP:
            ctx.note('C41-R2 skips %s: %s' % (short, LAYOUT_SKIP[ty]))
            continue
        resolve_for(ty)
        sm = {f: coalesce(rs) for f, rs in ser_map(sb).items()}
        lits = [(s, {f: coalesce(rs) for f, rs in dm.items()}) for s, dm in de_map(db, '::' + re.escape(short) + '$')]
        ctx.check('%s|parser-literal' % short, len(lits) == 1, 'struct literals in parser: %d' % len(lits), sample=len(lits))
        for s, dm in lits:
            flags = {}
            for f, rs in sorted(dm.items()):
                w = sm.get(f, set())
                ok = rs == w and rs and all(bounded(r) or r[1] is None for r in rs) and ('?', '?') not in rs
                ctx.check('%s|%s|same-bytes' % (short, f), ok, 'field %s is written to bytes %s but parsed from bytes %s' % (f, sorted(w, key=str), sorted(rs, key=str)), s.where(),
                          sample={'written': sorted(w, key=str), 'parsed': sorted(rs, key=str)})
                for r in rs:
                    flags.setdefault(r, []).append(f)
            extra = sorted(set(sm) - set(dm) - {'<const>'})
            ctx.check('%s|no-unparsed-field' % short, not extra, 'fields written but never parsed: %s' % extra, sample=extra)
            # overlap
            items = [(r, fs) for r, fs in flags.items() if isinstance(r[0], int) and isinstance(r[1], int)]
            bad = []
            for i, (r1_, f1) in enumerate(items):
                if len(f1) > 1 and not (short == 'Header' and r1_ in ((6, 7), (7, 8))):
                    bad.append((r1_, f1))
                for r2_, f2 in items[i + 1:]:
                    if r1_[0] < r2_[1] and r2_[0] < r1_[1] and set(f1) != set(f2):
                        bad.append((r1_, r2_, f1, f2))
            ctx.check('%s|disjoint' % short, not bad, 'overlapping field ranges: %s' % bad[:3], sample=len(items))
            # within the checked length
            mx = max([r[1] for r, _ in items] or [0])
            lens = []
            for (_, _, fs) in db.dominating_facts(s.bb):
                for f in fs:
                    c = cmp_of(f)
                    if c and c[0] in ('Ge', 'Gt', 'Le', 'Lt'):
                        l, r = S(c[1]), S(c[2])
                        if l == 'slice::len(buffer)' and re.match(r'^\d+$', r) and c[0] in ('Ge', 'Gt'):
                            lens.append(int(r) + (1 if c[0] == 'Gt' else 0))
            if lens:
                ctx.check('%s|length-check-covers' % short, max(lens) >= mx, 'parser checks len >= %d but reads up to byte %d' % (max(lens), mx), s.where(), sample={'checked': max(lens), 'max': mx})
    # header flag bits
    sh = P.body(W + 'messages::header::Header::serialize_header')
    dh = P.body(W + 'messages::header::Header::deserialize_header')
    wbits = {}
    for s in sh.assigns(lambda pl: len(pl['p']) >= 2 and pl['p'][0] == '*' and isinstance(pl['p'][1], dict) and 'idx' in pl['p'][1]):
        pl = s.data['place'] if s.kind == 'assign' else s.data['dest']
        i = cint(sh.local_term(pl['p'][1]['idx']))
        v = written_value(sh, s)
        m = re.match(r'^\(buffer\[(\d+)\] \| (?:num::from\(self\.(\w+)\)|\(num::from\(self\.(\w+)\) << (\d+)\))\)$', v)
        if m and int(m.group(1)) == i:
            wbits[m.group(2) or m.group(3)] = (i, 1 << int(m.group(4) or 0))
    rbits = {}
    for s in dh.aggregates(r'header::Header$'):
        for f, o in zip(s.data['rv']['fields'], s.data['rv']['ops']):
            m = re.match(r'^\(\(buffer\[(\d+)\] & (\d+)\) (?:>|!=) 0\)$', S(dh.operand_term(o)))
            if m:
                rbits[f] = (int(m.group(1)), int(m.group(2)))
    ctx.check('Header|flags|count', len(wbits) == 12 and len(rbits) == 12, 'flag bits written %d, read %d' % (len(wbits), len(rbits)), sample={'written': len(wbits), 'read': len(rbits)})
    for f in sorted(set(wbits) | set(rbits)):
        ctx.check('Header|flag|%s' % f, wbits.get(f) == rbits.get(f), 'flag %s written at (byte, mask) %s, read at %s' % (f, wbits.get(f), rbits.get(f)), sample=wbits.get(f))
    masks = sorted(wbits.values())
    ctx.check('Header|flags|distinct-bits', len(set(masks)) == len(masks), 'two flags share a bit: %s' % masks, sample=len(masks))


def min_len(body, scrut_re):
    """Smallest buffer length with which `body` goes on to parse a TLV: from edges `len(X) >= K` / `> K` with literal K."""
    out = set()
    for (_, _, fs) in body.edges():
        for f in fs or ():
            c = cmp_of(f)
            if not c:
                continue
            op, l, r = c
            ls, rs = S(l), S(r)
            if re.search(scrut_re, ls) and re.match(r'^\d+$', rs):
                if op == 'Ge':
                    out.add(int(rs))
                elif op == 'Gt':
                    out.add(int(rs) + 1)
            elif re.search(scrut_re, rs) and re.match(r'^\d+$', ls):
                if op == 'Le':
                    out.add(int(ls))
                elif op == 'Lt':
                    out.add(int(ls) + 1)
    return out


def r3(ctx):
    ctx.rule('C41-R3', 'TLV size threshold agreement: Tlv::deserialize, the TlvSet::deserialize loop and TlvSetIterator::next all go on with a buffer of at least '
             'the TLV header size (4 = the constant in Tlv::wire_size); TlvSet::deserialize returns Ok only when the remainder is empty')
    P = ctx.P
    ws = [v for _, v in ret_assigns(P.body(W + 'common::tlv::Tlv::wire_size'))]
    m = re.match(r'^\((\d+) \+ ', ws[0]) if len(ws) == 1 else None
    hdr = int(m.group(1)) if m else None
    ctx.check('tlv|header-size', hdr == 4, 'Tlv::wire_size = %s' % ws, sample=ws)
    got = {}
    for key, path in (('Tlv::deserialize', W + 'common::tlv::Tlv::deserialize'), ('TlvSet::deserialize', W + 'common::tlv::TlvSet::deserialize'),
                      ('TlvSetIterator::next', '<statime_wire::common::tlv::TlvSetIterator as core::iter::traits::iterator::Iterator>::next')):
        b = P.body(path)
        th = min_len(b, r'^slice::len\(')
        got[key] = th
        ctx.check('tlv|threshold|%s' % key, th == {hdr}, '%s goes on parsing with a buffer of at least %s bytes; a TLV with an empty value has %s' % (key, sorted(th), hdr), sample=sorted(th))
    ctx.check('tlv|threshold|agree', len({tuple(sorted(v)) for v in got.values()}) == 1, 'minimum TLV sizes differ: %s' % {k: sorted(v) for k, v in got.items()}, sample={k: sorted(v) for k, v in got.items()})
    b = P.body(W + 'common::tlv::TlvSet::deserialize')
    for s, v in ret_assigns(b):
        if v.startswith('Result::Ok'):
            ctx.guard(b, s, 'remainder-empty', fact_call(r'slice::is_empty$', True), key='TlvSet::deserialize|Ok|remainder-empty')
    ev = [c for c in b.calls(r'num::is_multiple_of$')]
    ctx.check('TlvSet::deserialize|even-length', len(ev) == 1 and S(b.call_args(ev[0])[1]) == '2', 'length parity test: %s' % [S(b.call_args(c)[1]) for c in ev], sample=len(ev))


def r4(ctx):
    panic.property_rule(ctx, 'C41', 'C41-R4')


RULES = [r1, r2, r3, r4]
FLOORS = {'C41-R1': 90, 'C41-R2': 70, 'C41-R3': 6}
