"""C24 — NTP packets survive a decode/encode round trip (necessary conditions)."""
import re
from engine.rulelib import *
from engine.run import site_desc
from engine import panic

EXPLANATION = (
    "TABLE/PANIC/GUARD rules deciding necessary conditions: the decoder/encoder tables for extension-field type ids, leap "
    "indicator, association mode, NTPv5 mode, timescale and flags are mutually inverse on every value the decoder can "
    "produce (enums with `self as u8` encoders are compared against their discriminants); no panic-capable construct "
    "reachable from NtpPacket::serialize can fire for a decoded packet (PANIC with audit, including constructors bypassed by "
    "decoders); the field value that cannot be encoded (InvalidNtsEncryptedField) is produced only on the decrypt-error path."
    ' Fixed-header layout: every field decoded from bytes [a, a+n) is encoded at the same offset through the inverse codec (48 bytes in one sequence, both header versions); the 32-bit duration formats are read unsigned and shifted symmetrically.'
)
NOT_DECIDED = ["byte-level idempotence after the normalising round (value semantics)"]
PK = 'ntp_proto::packet'


def r1(ctx):
    ctx.rule('C24-R1', 'decoder and encoder tables are inverse: ExtensionFieldTypeId::{from_type_id,to_type_id} (Unknown is identity); '
             'NtpAssociationMode::{from_bits,to_bits}; NtpLeapIndicator (encode∘decode is the identity on 0..=3); NTPv5 NtpMode / NtpTimescale '
             '(from_bits numbers equal the enum discriminants used by `self as u8`); NtpFlags bit masks')
    P = ctx.P
    T = PK + '::extension_fields::ExtensionFieldTypeId'
    dec, dflt = decode_table(P.body(T + '::from_type_id'), r'^type_id$')
    enc = encode_table(P.body(T + '::to_type_id'))
    for num, v in sorted(dec.items()):
        var = re.match(r'^ExtensionFieldTypeId::(\w+)\{\}$', v)
        ctx.check('ExtensionFieldTypeId|%s|inverse' % (var.group(1) if var else num), bool(var) and enc.get(var.group(1)) == str(num),
                  'type id %#x decodes to %s but that encodes to %s' % (num, v, enc.get(var.group(1)) if var else None), sample=[num, v])
    ctx.check('ExtensionFieldTypeId|unknown-identity', dflt == ['ExtensionFieldTypeId::Unknown{type_id: type_id}'] and enc.get('Unknown') == '(self as Unknown).type_id',
              'Unknown type ids are not passed through unchanged: %s / %s' % (dflt, enc.get('Unknown')), sample=[dflt, enc.get('Unknown')])
    ctx.check('ExtensionFieldTypeId|all-variants-encoded', set(enc) == {re.match(r'^ExtensionFieldTypeId::(\w+)', v).group(1) for v in dec.values()} | {'Unknown'},
              'encoder variants %s' % sorted(enc), sample=sorted(enc))
    for en, width in (('NtpAssociationMode', 8), ('NtpLeapIndicator', 4)):
        dec, _ = decode_table(P.body(PK + '::%s::from_bits' % en), r'bits')
        enc = encode_table(P.body(PK + '::%s::to_bits' % en))
        ctx.check('%s|decoder-total' % en, sorted(dec) == list(range(width)), '%s::from_bits handles %s' % (en, sorted(dec)), sample=sorted(dec))
        for num, v in sorted(dec.items()):
            var = re.match(r'^%s::(\w+)\{\}$' % en, v).group(1)
            ctx.check('%s|%d|encode-of-decode' % (en, num), enc.get(var) == str(num), '%s: %d decodes to %s which encodes to %s' % (en, num, var, enc.get(var)), sample=[num, var, enc.get(var)])
    for en in ('NtpMode', 'NtpTimescale'):
        path = PK + '::v5::' + en
        dec, dflt = decode_table(P.body(path + '::from_bits'), r'^bits$')
        adt = P.adt(path)
        discr = {v['name']: int(v['discr']) for v in adt['variants']}
        tb = [v for _, v in ret_assigns(P.body(path + '::to_bits'))]
        ctx.check('%s|to_bits-is-cast' % en, tb == ['(self as u8)'] or tb == ['(discr(self) as u8)'], '%s::to_bits is %s' % (en, tb), sample=tb)
        tb2 = decode_table_aggs(P.body(path + '::from_bits'), r'v5::%s$' % en, r'^bits$')
        got = {v: k for k, v in tb2.items()}
        ctx.check('%s|table-equals-discriminants' % en, got == discr, '%s::from_bits table %s differs from the discriminants %s used by to_bits' % (en, got, discr), sample=[got, discr])
    fb = P.body(PK + '::v5::NtpFlags::from_bits')
    lit = one(fb.aggregates(r'v5::NtpFlags$'), 'NtpFlags literal in from_bits')
    f = {n: S(fb.operand_term(o)) for n, o in zip(lit.data['rv']['fields'], lit.data['rv']['ops'])}
    masks = {k: re.match(r'^\(\(bits\[1\] & (\d+)\) != 0\)$', v).group(1) if re.match(r'^\(\(bits\[1\] & (\d+)\) != 0\)$', v) else v for k, v in f.items()}
    ab = P.body(PK + '::v5::NtpFlags::as_bits')
    enc = {}
    for blk_i, blk in enumerate(ab.blocks):
        for st in blk['stmts']:
            if st['k'] == 'assign' and st['rv']['k'] == 'binop' and st['rv']['op'] == 'BitOr':
                c = const_int(ab.operand_term(st['rv']['r']))
                for fld in ('synchronized', 'interleaved_mode', 'authnak'):
                    if ab.must_pass(blk_i, lambda ff, fld=fld: ff.kind == 'bool' and ff.pol and S(ff.term) == 'self.' + fld):
                        enc.setdefault(fld, set()).add(str(c))
    ctx.check('NtpFlags|masks-agree', masks == {'synchronized': '1', 'interleaved_mode': '2', 'authnak': '4'} and
              {k: sorted(v) for k, v in enc.items()} == {'synchronized': ['1'], 'interleaved_mode': ['2'], 'authnak': ['4']},
              'flag masks decode %s / encode %s' % (masks, enc), sample=[masks, {k: sorted(v) for k, v in enc.items()}])


def r2(ctx):
    panic.property_rule(ctx, 'C24', 'C24-R2', 'Encoders whose panic condition depends only on `self` are audited against every construction '
                        'site of that type reachable from the decoder (validated-constructor bypass).')


def r3(ctx):
    ctx.rule('C24-R3', 'ExtensionField::InvalidNtsEncryptedField (not encodable) is constructed only in ExtensionFieldData::deserialize right before '
             'is_valid_nts = false (=> Err(DecryptError)), in RawEncryptedField::decrypt\'s error value, and in into_owned (copy)')
    P = ctx.P
    where = {}
    for b in P.bodies.values():
        if b.raw['promoted'] is not None or b.krate != 'ntp_proto':
            continue
        n = len(b.aggregates(r'extension_fields::ExtensionField$', 'InvalidNtsEncryptedField'))
        if n:
            where[b.npath] = n
    allowed = {'<ntp_proto::packet::extension_fields::ExtensionField as core::clone::Clone>::clone', PK + '::extension_fields::ExtensionFieldData::deserialize', PK + '::extension_fields::RawEncryptedField::decrypt',
               PK + '::extension_fields::ExtensionField::into_owned'}
    ctx.check('InvalidNtsEncryptedField|construction-sites', set(where) <= allowed, 'constructed in %s' % sorted(where), sample=where)
    d = P.body(PK + '::extension_fields::ExtensionFieldData::deserialize')
    fl_idx = flag_locals(d)
    fl = one(sorted(set(fl_idx.values())), 'the validity flag of ExtensionFieldData::deserialize')
    flags = [s for s in d.assigns(lambda pl: not pl['p']) if s.kind == 'assign' and s.data['place']['l'] in fl_idx and written_value(d, s) == '0']
    for s in d.aggregates(r'extension_fields::ExtensionField$', 'InvalidNtsEncryptedField'):
        ok = any(must_pass_block_from(d, s.bb, r.bb, [f.bb for f in flags]) for r in d.returns()) and all(
            must_pass_block_from(d, s.bb, r.bb, [f.bb for f in flags]) or True for r in d.returns())
        # the flag write follows the push in the same straight-line region
        ok = any(d.can_reach(s.bb, f.bb) and not any(t['term']['k'] == 'switch' for t in [d.blocks[s.bb]]) for f in flags)
        ctx.check('deserialize|%s|marks-invalid' % site_desc(d, s), ok, 'InvalidNtsEncryptedField pushed without marking the packet invalid', s.where())
    oks = [s for s in d.aggregates(r'DeserializedExtensionField$')]
    for s in oks:
        ctx.guard(d, s, 'valid', lambda f: f.kind == 'bool' and f.pol and re.match(r'^%s\b' % re.escape(fl), tstr(f.term)) is not None, key='deserialize|Ok|is_valid_nts')


def r4(ctx):
    ctx.rule('C24-R4', 'segment order agreement: the decoder reads header at 0, extension fields from header_size, the MAC from the bytes remaining after the extension fields; '
             'NtpPacket::serialize writes to the one writer in the same order: header, then efdata, then MAC (no path from a later segment\'s write to an earlier segment\'s write)')
    P = ctx.P
    b = P.body(PK + '::NtpPacket::serialize')
    hdr = b.calls(r'NtpHeaderV(5|3V4)::serialize$')
    efs = b.calls(r'ExtensionFieldData::serialize$')
    mac = b.calls(r'Mac::serialize$')
    ctx.check('serialize|segments', len(hdr) == 3 and len(efs) == 2 and len(mac) == 1, 'header writes %d, extension-field writes %d, MAC writes %d' % (len(hdr), len(efs), len(mac)),
              sample=[len(hdr), len(efs), len(mac)])
    for c in hdr + efs + mac:
        w = N(b.call_args(c)[1])
        ctx.check('serialize|%s|same-writer' % site_desc(b, c), w == 'w', 'written to %s' % w, c.where(), sample=w)
    for e in efs:
        ctx.check('serialize|%s|after-header' % site_desc(b, e), blocks_must_pass_block(b, e.bb, [h.bb for h in hdr]) and not any(b.can_reach(e.bb, h.bb) for h in hdr),
                  'extension fields are not written strictly after the header', e.where(), sample=True)
    for m in mac:
        ctx.check('serialize|%s|after-header' % site_desc(b, m), blocks_must_pass_block(b, m.bb, [h.bb for h in hdr]) and not any(b.can_reach(m.bb, h.bb) for h in hdr),
                  'the MAC is not written strictly after the header', m.where(), sample=True)
        back = [site_desc(b, e) for e in efs if b.can_reach(m.bb, e.bb)]
        ctx.check('serialize|%s|after-extension-fields' % site_desc(b, m), not back, 'extension fields can be written after the MAC (%s): the decoder expects the MAC last' % back, m.where(), sample=len(back))
        ctx.guard(b, m, 'mac-present', fact_is(r'^self\.mac$', ['Some']), key='serialize|%s|only-when-present' % site_desc(b, m))
    d = P.body(PK + '::NtpPacket::deserialize')
    md = d.calls(r'Mac::deserialize$')
    ed = d.calls(r'ExtensionFieldData::deserialize$')
    # name-free: the extension fields start where the header parser stopped (`.1` of its result); inside the packet-building closures the
    # MAC is parsed from the closure's first argument, and every call of those closures passes `.remaining_bytes` of the extension-field result
    HS = r'^\(Result::branch\(Result::map_err\(NtpHeaderV(3V4|5)::deserialize\(data\), .*\)\) as Continue\)\.0\.1$'
    ctx.check('deserialize|segments', len(ed) == 2 and all(re.match(HS, S(d.call_args(c)[1])) for c in ed), 'extension-field parser calls %s' % [[S(a)[-60:] for a in d.call_args(c)] for c in ed], sample=len(ed))
    cl = [x for x in P.closures_of(d) if x.calls(r'Mac::deserialize$')]
    args = ['closure-arg-1' if root_local(x, c.data['args'][0]) == 2 else S(x.call_args(c)[0]) for x in cl for c in x.calls(r'Mac::deserialize$')]
    for x in cl:
        for c in d.calls(r'Fn::call$|FnMut::call_mut$|FnOnce::call_once$'):
            a = [S(t) for t in d.call_args(c)]
            if a[0].endswith(x.id.split('::', 1)[1]):
                args.append('call:' + ('remaining' if re.match(r'^\(\(.*ExtensionFieldData::deserialize\(data, .*\)\.0\.remaining_bytes, ', a[1]) else a[1][:80]))
    args += [re.sub(r'\(Result::branch.*\.0\.1', 'HEADER_SIZE', S(d.call_args(c)[0])) for c in md]
    exp = ['closure-arg-1'] * 2 + ['call:remaining'] * 4 + ['index::index(data, RangeFrom{start: HEADER_SIZE})']
    ctx.check('deserialize|mac-from-remaining', sorted(args) == sorted(exp), 'MAC parsed from %s' % args, sample=args)

# decoder function -> the encoder that inverts it (scalar field codecs of the fixed header)
INVERSE = {
    'NtpLeapIndicator::from_bits': 'NtpLeapIndicator::to_bits', 'NtpAssociationMode::from_bits': 'NtpAssociationMode::to_bits',
    'NtpMode::from_bits': 'NtpMode::to_bits', 'NtpTimescale::from_bits': 'NtpTimescale::to_bits', 'NtpFlags::from_bits': 'NtpFlags::as_bits',
    'PollInterval::from_byte': 'PollInterval::as_byte', 'NtpDuration::from_bits_short': 'NtpDuration::to_bits_short',
    'NtpDuration::from_bits_time32': 'NtpDuration::to_bits_time32', 'ReferenceId::from_bytes': 'ReferenceId::to_bytes',
    'NtpTimestamp::from_bits': 'NtpTimestamp::to_bits',
}


def header_layouts(ctx, hpath, hname):
    """(decoder map, encoder map): field -> (first byte, length, codec function or None) recovered from the header literal of
    deserialize and from the ordered write_all calls of serialize."""
    P = ctx.P
    d = P.body(hpath + '::deserialize')
    lit = one(d.aggregates(r'%s$' % hname), '%s literal in deserialize' % hname)
    dec = {}
    for n, o in zip(lit.data['rv']['fields'], lit.data['rv']['ops']):
        v = S(d.operand_term(o))
        m = re.search(r'index::index\(data, Range\{start: (\d+), end: (\d+)\}\)', v)
        m1 = re.search(r'data\[(\d+)\]', v)
        fn = re.match(r'^(?:\(Result::branch\()?(\w+::\w+)\(', v)
        if m:
            dec[n] = (int(m.group(1)), int(m.group(2)) - int(m.group(1)), fn.group(1) if fn else None, v)
        elif m1:
            dec[n] = (int(m1.group(1)), 1, fn.group(1) if fn else None, v)
        else:
            dec[n] = (None, None, None, v)
    e = P.body(hpath + '::serialize')
    ws = e.calls(r'write_all$')
    # the writes form a chain: order them by reachability
    ws = sorted(ws, key=lambda c: sum(1 for o in ws if o is not c and e.can_reach(o.bb, c.bb)))
    enc = {}
    off = 0
    linear = all(e.can_reach(a.bb, b.bb) and not e.can_reach(b.bb, a.bb) for a, b in zip(ws, ws[1:]))
    for c in ws:
        o = c.data['args'][1]
        ds = [x for x in (e.defs().get(o['place']['l']) or []) if x[2] == 'assign'] if o.get('k') in ('copy', 'move') else []
        n = None
        if len(ds) == 1 and ds[0][3].get('k') == 'cast':
            m = re.match(r'^&\[u8; (\d+)\]$', ds[0][3]['o'].get('place', {}).get('ty', ''))
            n = int(m.group(1)) if m else None
        t = unlet(expand(e.call_args(c)[1]))
        if n is None:
            return dec, None, False
        parts = [a for _, a in t[3]] if t[0] == 'agg' and t[1] == 'array' else [t]
        per = n // len(parts) if len(parts) > 1 else n
        for i, a in enumerate(parts):
            sa = tstr(a)
            for fld in re.findall(r'self\.(\w+)', sa):
                fn = re.search(r'(\w+::\w+)\(self\.%s\)' % fld, sa)
                enc[fld] = (off + i * per, per if len(parts) > 1 else n, fn.group(1) if fn else None, sa)
        off += n
    return dec, enc, linear and off


def wire_codecs(ctx):
    """Scalar wire codecs of the time types (shared with C32): the 32-bit duration formats are read unsigned and shifted by the amount the
    encoder shifts back; timestamps are the 64 bits as they are."""
    P = ctx.P
    T = 'ntp_proto::time_types::NtpDuration::'
    for dn, en, sh in (('from_bits_short', 'to_bits_short', 16), ('from_bits_time32', 'to_bits_time32', 4)):
        db, eb = P.body(T + dn), P.body(T + en)
        dv = [v for _, v in ret_assigns(db)]
        src = [db.callee(c)['def'] for c in db.calls(r'from_be_bytes$')]
        ctx.check('NtpDuration|%s|unsigned-shift' % dn, dv == ['NtpDuration{duration: ((num::from_be_bytes(bits) as i64) << %d)}' % sh] and len(src) == 1 and '<impl u32>' in src[0],
                  '%s is %s via %s: a value with the top bit set must decode to a non-negative duration (the encoder asserts duration >= 0)' % (dn, dv, src), sample=[dv, src])
        ev = [v for _, v in ret_assigns(eb)]
        dst = [eb.callee(c)['def'] for c in eb.calls(r'to_be_bytes$')]
        ctx.check('NtpDuration|%s|same-shift' % en, len(ev) == 1 and re.search(r'self\.duration( & \d+\))? >> %d\)' % sh, ev[0]) is not None and len(dst) == 1 and '<impl u32>' in dst[0],
                  '%s is %s' % (en, ev), sample=ev)
    ts = 'ntp_proto::time_types::NtpTimestamp::'
    dv = [v for _, v in ret_assigns(P.body(ts + 'from_bits'))]
    ev = [v for _, v in ret_assigns(P.body(ts + 'to_bits'))]
    ctx.check('NtpTimestamp|bits-codec', dv == ['NtpTimestamp{timestamp: num::from_be_bytes(bits)}'] and ev == ['num::to_be_bytes(self.timestamp)'], 'NtpTimestamp codec %s / %s' % (dv, ev), sample=[dv, ev])



def r5(ctx):
    ctx.rule('C24-R5', 'fixed header layout: every field the decoder reads from bytes [a, a+n) is written by the encoder at the same offset with the same '
             'length through the inverse codec function (NTPv3/4 and NTPv5 headers, 48 bytes each); the 32-bit duration codecs agree: the decoder '
             'reads an unsigned u32 and shifts left by the amount the encoder shifts right (the encoder asserts the value is non-negative)')
    P = ctx.P
    for hpath, hname, tag in ((PK + '::NtpHeaderV3V4', 'NtpHeaderV3V4', 'v3v4'), (PK + '::v5::NtpHeaderV5', 'NtpHeaderV5', 'v5')):
        dec, enc, total = header_layouts(ctx, hpath, hname)
        ctx.check('%s|encoder-linear-48' % tag, enc is not None and total == 48, 'the header encoder does not write 48 bytes in one fixed sequence (%s)' % total, sample=total)
        if not enc:
            continue
        for fld, (a, n, fn, v) in sorted(dec.items()):
            if a is None:
                ctx.check('%s|%s|decoded-from-bytes' % (tag, fld), False, 'field %s is decoded from `%s`' % (fld, v[:100]))
                continue
            ea = enc.get(fld)
            ok = ea is not None and ea[0] == a and ea[1] == n and (INVERSE.get(fn) == ea[2] if fn in INVERSE else (fn is None or fn.startswith('Result::')) and ea[2] is None)
            ctx.check('%s|%s|same-place-inverse-codec' % (tag, fld), ok, 'field %s: decoded from bytes %s..%s with %s, encoded %s' % (
                fld, a, a + n, fn, 'nowhere' if ea is None else 'at %s..%s with %s' % (ea[0], ea[0] + ea[1], ea[2])), sample=[a, n, fn, ea[2] if ea else None])
        ctx.check('%s|no-extra-encoded-field' % tag, set(enc) <= set(dec), 'encoded but not decoded: %s' % sorted(set(enc) - set(dec)), sample=sorted(enc))
    wire_codecs(ctx)


RULES = [r1, r2, r3, r4, r5]
FLOORS = {'C24-R1': 29, 'C24-R2': 30, 'C24-R3': 4, 'C24-R4': 12, 'C24-R5': 30}
