"""C38 — ntp-ctl reads exactly what the daemon publishes (structural part)."""
import re
from engine.rulelib import *
from engine.run import site_desc

EXPLANATION = (
    "GUARD/TABLE rules: read_json allocates and reads the payload only past `msg_size > MAX_JSON_MESSAGE_SIZE (1 << 20) -> Err`, "
    "with the announced size (no other read before it); write_json writes the u64 length of exactly the serialised bytes and then "
    "those bytes (framing symmetric with read_json); the hand-written serde pairs are inverse by construction: NtpDuration "
    "serialises to_seconds() as f64 and deserialises through from_seconds, Counter serialises get() as u64 and deserialises a u64."
    ' NtpDuration::from_seconds (reader side) shifts the seconds into the upper half only under a guard proving they fit an i32, so saturated published values keep their sign.'
)
NOT_DECIDED = ["numeric equality within the stated tolerance (floating point)", "derive-generated serde code is symmetric by construction (trusted)"]
SK = 'ntpd::daemon::sockets'


def r1(ctx):
    ctx.rule('C38-R1', 'read_json: buffer.resize and read_exact are reachable only past !(msg_size > MAX_JSON_MESSAGE_SIZE) with MAX_JSON_MESSAGE_SIZE == 1 << 20; '
             'the size is the u64 read first; the payload is read with read_exact into exactly msg_size bytes')
    P = ctx.P
    ctx.check('MAX_JSON_MESSAGE_SIZE', P.const_val(SK + '::MAX_JSON_MESSAGE_SIZE') == str(1 << 20), 'limit is %s' % P.const_val(SK + '::MAX_JSON_MESSAGE_SIZE'), sample=P.const_val(SK + '::MAX_JSON_MESSAGE_SIZE'))
    b = P.body(SK + '::read_json::{closure#0}')
    within = fact_cmp('Le', r'ReadU64', r'^MAX_JSON_MESSAGE_SIZE=1048576$')
    # the payload must be read completely: the only read besides the length prefix is one read_exact (a single read()/read_buf() returns after the first chunk)
    partial = [s for s in b.calls(r'AsyncReadExt::(read|read_to_end|read_buf|read_to_string)$')]
    exact = b.calls(r'AsyncReadExt::read_exact$')
    ctx.check('read_json|payload-read-completely', not partial and len(exact) == 1,
              'the payload is read with %s: a message that arrives in several chunks is cut short' % ([short_name(b.callee(s)['def']) for s in partial] or 'no single read_exact'),
              (partial or exact or [None])[0].where() if (partial or exact) else None, sample=[len(partial), len(exact)])
    rz = one(b.calls(r'Vec::resize$'), 'buffer.resize')
    ctx.guard(b, rz, 'size-checked', within, key='read_json|resize|size-checked')
    a = [S(x) for x in b.call_args(rz)]
    # name-free: the new length is the u64 read from the stream (converted to usize), nothing else
    ctx.check('read_json|resize|size', re.match(r'^(\(Result::branch\(Result::map_err\(T::try_into\()?\(Result::branch\(\(ReadU64::poll\(.*AsyncReadExt::read_u64\(stream\).* as Continue\)\.0', a[1]) is not None,
              'resized to `%s`' % a[1][:100], rz.where(), sample=a[1][:120])
    rex = one(b.calls(r'AsyncReadExt::read_exact$'), 'read_exact')
    ctx.guard(b, rex, 'size-checked', within, key='read_json|read_exact|size-checked')
    ctx.check('read_json|payload-after-resize', must_pass_block_from(b, 0, rex.bb, [rz.bb]), 'payload read before the buffer is sized')
    ru = one(b.calls(r'AsyncReadExt::read_u64$'), 'read_u64')
    others = [s for s in b.calls(r'AsyncReadExt::(read|read_to_end|read_buf|read_to_string)$')]
    ctx.check('read_json|no-unbounded-read', not others, 'unbounded reads: %s' % [short_name(b.callee(s)['def']) for s in others], sample=len(others))
    ctx.check('read_json|size-first', not b.can_reach(rex.bb, ru.bb) and b.can_reach(ru.bb, rex.bb), 'size is not read before the payload')
    w = P.body(SK + '::write_json::{closure#0}')
    wu = one(w.calls(r'AsyncWriteExt::write_u64$'), 'write_u64')
    wa = one(w.calls(r'AsyncWriteExt::write_all$'), 'write_all')
    ln, pl = S(w.call_args(wu)[1]), S(w.call_args(wa)[1])
    m = re.match(r'^\(Vec::len\((.*)\) as u64\)$', ln)
    ctx.check('write_json|length-of-payload', m is not None and pl in (m.group(1), 'Vec::deref(%s)' % m.group(1)) and 'ser::to_vec(value)' in pl,
              'write_json writes %s then %s' % (ln, pl), wu.where(), sample=[ln, pl])
    ctx.check('write_json|length-first', w.can_reach(wu.bb, wa.bb) and not w.can_reach(wa.bb, wu.bb), 'length is not written before the payload')


def r2(ctx):
    ctx.rule('C38-R2', 'hand-written serde pairs are inverse by construction: NtpDuration: serialize_f64(self.to_seconds()) / from_seconds(f64::deserialize); '
             'Counter: serialize_u64(self.get()) / Counter from a deserialised u64')
    P = ctx.P
    s = P.body('<ntp_proto::time_types::NtpDuration as serde_core::ser::Serialize>::serialize')
    c = some(s.calls(r'Serialize::serialize$|Serializer::serialize_f64$'), 'f64 serialisation')
    ok = S(s.call_args(c[0])[0 if 'Serialize::serialize' in norm_path(s.callee(c[0])['def']) else 1]) == 'NtpDuration::to_seconds(self)' and \
        ('f64' in str(s.callee(c[0]).get('self_ty', '')) or 'serialize_f64' in s.callee(c[0])['def'])
    ctx.check('NtpDuration|serialize', ok, 'serialises %s via %s' % ([S(x) for x in s.call_args(c[0])], s.callee(c[0])['def']), c[0].where(), sample=[S(x) for x in s.call_args(c[0])][:1])
    d = P.body('<ntp_proto::time_types::NtpDuration as serde_core::de::Deserialize>::deserialize')
    fs = some(d.calls(r'NtpDuration::from_seconds$'), 'from_seconds in deserialize')
    src = S(d.call_args(fs[0])[0])
    ctx.check('NtpDuration|deserialize', re.search(r'deserialize\(deserializer\)', src) is not None and [d.callee(c).get('self_ty') for c in d.calls(r'Deserialize::deserialize$')] == ['f64'], 'deserialises from %s' % src[:100], fs[0].where(), sample=src[:140])
    cs = P.body('<ntpd::daemon::server::Counter as serde_core::ser::Serialize>::serialize')
    c = some(cs.calls(r'Serializer::serialize_u64$'), 'serialize_u64')
    ctx.check('Counter|serialize', S(cs.call_args(c[0])[1]) == 'Counter::get(self)', 'serialises %s' % S(cs.call_args(c[0])[1]), c[0].where(), sample=S(cs.call_args(c[0])[1]))
    cd = P.body('<ntpd::daemon::server::Counter as serde_core::de::Deserialize>::deserialize')
    u = [x for x in cd.calls(r'Deserialize::deserialize$')]
    ctx.check('Counter|deserialize-u64', len(u) == 1 and (cd.callee(u[0]).get('self_ty') == 'u64' or 'u64' in str(cd.callee(u[0]).get('gargs'))), 'Counter deserialises via %s' % [cd.callee(x).get('gargs') for x in u],
              sample=[cd.callee(x).get('gargs') for x in u])
    ts = [v for _, v in ret_assigns(P.body('ntp_proto::time_types::NtpDuration::to_seconds'))]
    ctx.check('NtpDuration::to_seconds|shape', len(ts) == 1 and 'self.duration' in ts[0], 'to_seconds is %s' % ts, sample=ts)


def r3(ctx):
    ctx.rule('C38-R3', 'NtpDuration::from_seconds (the reader side of every duration in the observable state): whole seconds are shifted into the upper 32 '
             'bits only under a guard proving they fit an i32, everything else saturates to MIN/MAX - so the saturated values the daemon publishes '
             '(NtpDuration::MAX for sources without measurements) read back with their sign')
    from rules import C32
    C32.seconds_saturation(ctx)


RULES = [r1, r2, r3]
FLOORS = {'C38-R1': 9, 'C38-R2': 5, 'C38-R3': 3}
