"""C31 — IP filters match exactly the configured subnets (structural part)."""
import re
from engine.rulelib import *
from engine.run import site_desc
from engine import panic

EXPLANATION = (
    "GUARD/FLOW/PANIC rules: IpSubnet::from_str returns Ok only past split_once('/'), a successful address parse, a u8 mask "
    "parse, canonicalisation of IPv4-mapped IPv6 subnets with mask.checked_sub(96), and mask <= 32/128 by (canonical) family; "
    "IpFilter::is_in canonicalises the client address with IpAddr::to_canonical (only IPv4-mapped addresses become IPv4) and "
    "dispatches V4 to the IPv4 tree and V6 to the IPv6 tree; IpFilter::new routes subnets by family using the same bit "
    "placement (IPv4 value << 96) that the lookup uses; no reachable panic in lookup/creation."
)
NOT_DECIDED = ["the set semantics of the bit trie as a whole (that lookup(v) is true exactly for covered v) is value-level and not decided; R4 decides the agreements between builder "
               "and lookup that it rests on (sort order precondition, symbol width, decision order, child indexing, outset only for empty buckets); the coverage-merging arithmetic "
               "of the 'union of parts' arm is not decided"]
F = 'ntp_proto::ipfilter::IpFilter'
FS = '<ntp_proto::server::IpSubnet as core::str::traits::FromStr>::from_str'


def r1(ctx):
    ctx.rule('C31-R1', 'IpSubnet::from_str: Ok only past split_once(\'/\') Some, address parse Ok, u8 mask parse Ok, mask <= max_mask with max_mask 32 '
             'for V4 / 128 for V6 of the canonicalised address; IPv4-mapped V6 subnets become (canonical V4, mask.checked_sub(96)?)')
    b = ctx.P.body(FS)
    oks = [(s, v) for s, v in ret_assigns(b) if v.startswith('Result::Ok')]
    ctx.check('from_str|ok-sites', len(oks) == 1, 'Ok sites: %d' % len(oks), sample=len(oks))
    for s, v in oks:
        ctx.guard(b, s, 'has-slash', fact_is(r'^Result::branch\(Option::ok_or\(str::split_once\(s, 47\)', 'Continue'), key='from_str|Ok|split')
        SPLIT = r'\(Result::branch\(Option::ok_or\(str::split_once\(s, 47\), [^()]*\{\}\)\) as Continue\)\.0'
        ctx.guard(b, s, 'addr-parses', fact_is(r'^Result::branch\(str::parse\(%s\.0\)\)$' % SPLIT, 'Continue'), key='from_str|Ok|addr')
        ctx.guard(b, s, 'mask-parses', fact_is(r'^Result::branch\(Result::map_err\(str::parse\(%s\.1\), ' % SPLIT, 'Continue'), key='from_str|Ok|mask')
        ctx.guard(b, s, 'mask-in-range', fact_cmp('Le', r'num::checked_sub\(.*, 96\)', r'^\w*\{128 \| 32\}$'), key='from_str|Ok|mask<=max')
    # the per-family mask limit: the user local whose two definitions are the constants 32 and 128 (found by its values, not its name)
    li = one([i for i, l in enumerate(b.locals) if l.get('user') and l.get('name') and sorted(S(b._def_term(d, ())) for d in (b.defs().get(i) or [])) == ['128', '32']], 'the per-family mask limit')
    tab = {}
    for d in b.defs()[li]:
        v = S(b._def_term(d, ()))
        for fam in ('V4', 'V6'):
            if b.must_pass(d[0], fact_is(r'.', [fam])):
                tab[fam] = v
    ctx.check('from_str|max-mask-table', tab == {'V4': '32', 'V6': '128'}, 'mask limits %s' % tab, sample=tab)
    cs = one(b.calls(r'::checked_sub$'), 'checked_sub(96)')
    ctx.check('from_str|mapped-mask', S(b.call_args(cs)[1]) == '96', 'mapped mask offset %s' % S(b.call_args(cs)[1]), cs.where(), sample=S(b.call_args(cs)[1]))
    ctx.guard(b, cs, 'v6-input', fact_is(r'^\(Result::branch\(str::parse\(', ['V6']), key='from_str|mapped|v6-input')
    ctx.guard(b, cs, 'v4-canonical', fact_is(r'IpAddr::to_canonical\(', ['V4']), key='from_str|mapped|canonical-v4')
    ty = [S(b.call_args(c)[0]) for c in b.calls(r'str::parse$')]
    # the prefix length is parsed as u8: the type of the checked_sub receiver
    mt = [b.callee(cs).get('self_ty') or b.callee(cs)['def']]
    ctx.check('from_str|mask-type', any('u8' in str(t) for t in mt), 'mask parsed as %s' % mt, sample=[str(t)[:40] for t in mt])


def r2(ctx):
    ctx.rule('C31-R2', 'IpFilter::is_in = match addr.to_canonical() { V4 => ipv4 tree lookup of (u32 << 96), V6 => ipv6 tree lookup of the u128 }; '
             'IpFilter::new puts V4 subnets (same << 96 placement) into the ipv4 tree and V6 subnets into the ipv6 tree')
    P = ctx.P
    b = P.body(F + '::is_in')
    can = b.calls(r'IpAddr::to_canonical$')
    ctx.check('is_in|to_canonical', len(can) == 1 and S(b.call_args(can[0])[0]) == 'addr', 'address normalisation calls: %s' % [short_name(b.callee(c)['def']) for c in b.calls()], sample=[short_name(b.callee(c)['def']) for c in b.calls()])
    conv = [c for c in b.calls(r'Ipv6Addr::(to_ipv4|to_ipv4_mapped)$|IpAddr::(is_ipv4|to_ipv4)')]
    ctx.check('is_in|no-other-conversion', not conv, 'is_in converts addresses with %s' % [short_name(b.callee(c)['def']) for c in conv], sample=len(conv))
    for fn, fam in (('is_in4', 'V4'), ('is_in6', 'V6')):
        c = one(b.calls(r'IpFilter::%s$' % fn), fn)
        ctx.guard(b, c, 'family', fact_is(r'^IpAddr::to_canonical\(addr\)$', [fam]), key='is_in|%s|family' % fn)
        ctx.check('is_in|%s|arg' % fn, re.match(r'^\(IpAddr::to_canonical\(addr\) as %s\)\.0$' % fam, S(b.call_args(c)[1])) is not None, 'argument %s' % S(b.call_args(c)[1]), c.where(), sample=S(b.call_args(c)[1]))
    i4 = P.body(F + '::is_in4')
    l4 = one(i4.calls(r'BitTree::lookup$'), 'lookup in is_in4')
    a = [S(x) for x in i4.call_args(l4)]
    ctx.check('is_in4|tree-and-placement', a == ['self.ipv4_filter', '((num::from_be_bytes(Ipv4Addr::octets(addr)) as u128) << 96)'], 'is_in4 looks up %s' % a, l4.where(), sample=a)
    i6 = P.body(F + '::is_in6')
    l6 = one(i6.calls(r'BitTree::lookup$'), 'lookup in is_in6')
    a = [S(x) for x in i6.call_args(l6)]
    ctx.check('is_in6|tree', a == ['self.ipv6_filter', 'num::from_be_bytes(Ipv6Addr::octets(addr))'], 'is_in6 looks up %s' % a, l6.where(), sample=a)
    n = P.body(F + '::new')
    # the two prefix lists are told apart by the storage they live in (local index), not by their names:
    # the list that receives the V4-placed values must be the one the ipv4 tree is built from, likewise for V6
    lists = {}
    pushes = n.calls(r'Vec::push$')
    ctx.check('new|push-sites', len(pushes) == 2, 'push sites in IpFilter::new: %d' % len(pushes), sample=len(pushes))
    for p in pushes:
        val = S(n.call_args(p)[1])
        is4 = re.match(r'^\(\(\(num::from_be_bytes\(Ipv4Addr::octets\(.*\)\) as u128\) << 96\), .*\.mask\)$', val) is not None
        is6 = re.match(r'^\(num::from_be_bytes\(Ipv6Addr::octets\(.*\)\), .*\.mask\)$', val) is not None
        fam = 'V4' if is4 else 'V6' if is6 else None
        ctx.check('new|ipv%slist|%s' % ('4' if is4 else '6', 'placement' if is4 else 'value'), fam is not None, 'prefix list entry %s' % val[:120], p.where(), sample=val[:160])
        if fam:
            ctx.guard(n, p, fam.lower() + '-subnet', fact_is(r'\.addr$', [fam]), key='new|ipv%slist|family' % fam[1])
            lists[fam] = root_local(n, p.data['args'][0])
    lit = one(n.aggregates(r'ipfilter::IpFilter$'), 'IpFilter literal')
    built = {}
    for k, o in zip(lit.data['rv']['fields'], lit.data['rv']['ops']):
        # the field operand is the result of BitTree::create(<list>.as_mut_slice()): follow it to the list's local
        tmp = o['place']['l'] if o.get('k') in ('copy', 'move') else None
        ds = [d for d in (n.defs().get(tmp) or []) if d[2] == 'call'] if tmp is not None else []
        if len(ds) == 1 and re.search(r'BitTree::create$', short_name((n.blocks[ds[0][0]]['term']['func'].get('fn') or {}).get('def', ''))):
            built[k] = root_local(n, n.blocks[ds[0][0]]['term']['args'][0])
    ok = lists.get('V4') is not None and lists.get('V6') is not None and lists['V4'] != lists['V6'] and built == {'ipv4_filter': lists['V4'], 'ipv6_filter': lists['V6']}
    ctx.check('new|trees', ok, 'prefix lists (local #) %s, trees built from %s' % (lists, built), lit.where(), sample={'lists': lists, 'trees': built})


def r3(ctx):
    panic.property_rule(ctx, 'C31', 'C31-R3')


T = 'ntp_proto::ipfilter::'


def r4(ctx):
    ctx.rule('C31-R4', 'the invariants the bit trie relies on, as agreements between its builder and its lookup: create masks every prefix and sorts the (value, length) pairs with '
             'the full tuple order before fill_node (fill_node takes the first entry of a bucket as the shortest prefix); symbol width 4 is used consistently (top_nibble, '
             'lookup shift, builder shift, len -= 4, len <= 4, 1 << (4 - len)); lookup tests inset before outset and computes the child index as '
             'child_offset + popcount(undecided & (cur - 1)), matching the builder that appends one child per undecided symbol in ascending order')
    P = ctx.P
    c = P.body(T + 'BitTree::create')
    sorts = c.calls(r'slice::(sort|sort_unstable|sort_by|sort_by_key|sort_unstable_by|sort_unstable_by_key|sort_by_cached_key)$')
    kinds = [short_name(c.callee(s)['def']) for s in sorts]
    ctx.check('create|sorted-by-value-then-length', kinds in (['slice::sort'], ['slice::sort_unstable']) and N(c.call_args(sorts[0])[0]) == 'data',
              'prefixes are ordered with %s: fill_node needs the full (value, length) order so that the first entry of a bucket is the shortest prefix' % kinds, sorts[0].where() if sorts else None, sample=kinds)
    masks = [(s, t, v) for s, t, v in deref_writes(c) if re.search(r'ipfilter::apply_mask\(', v)]
    ok = len(masks) == 1 and re.match(r'^(.*)\.0\.0$', masks[0][1]) is not None and masks[0][2] == 'ipfilter::apply_mask(%s, %s)' % (masks[0][1], masks[0][1][:-1] + '1')
    ctx.check('create|masked', ok, 'masking writes %s' % [(t[-30:], v[-80:]) for _, t, v in masks], sample=len(masks))
    fn = c.calls(r'BitTree::fill_node$')
    ctx.check('create|fill-root', len(fn) == 1 and [N(a) for a in c.call_args(fn[0])][1:] == ['data', '0'], 'fill_node called with %s' % [[N(a)[:30] for a in c.call_args(x)] for x in fn], sample=len(fn))
    if sorts and fn and masks:
        ctx.check('create|order', blocks_must_pass_block(c, fn[0].bb, [sorts[0].bb]) and c.can_reach(masks[0][0].bb, sorts[0].bb) and not c.can_reach(sorts[0].bb, masks[0][0].bb),
                  'mask, sort, fill_node do not happen in this order', sample=True)
    tn = [v for _, v in ret_assigns(P.body(T + 'top_nibble'))]
    ctx.check('top_nibble', tn == ['(((v >> 124) & 15) as u8)'], 'top_nibble = %s' % tn, sample=tn)
    am = sorted(v for _, v in ret_assigns(P.body(T + 'apply_mask')))
    ctx.check('apply_mask', am == ['(val & (num::checked_shl(MAX=340282366920938463463374607431768211455, ((128 - len) as u32)) as Some).0)', '0'], 'apply_mask = %s' % am, sample=am)
    l = P.body(T + 'BitTree::lookup')
    # name-free: the current node is whatever loop variable holds `nodes[0]` / `nodes[child index]` (printed as a phi `name{a | b}`), the
    # symbol is `1 << top_nibble(<the address, shifted>)`; both are normalised away before the forms are compared
    def norm(x):
        x = re.sub(r'\w+\{[^{}]*Vec::index\(self\.nodes, [^{}]*\}', 'NODE', x)
        return re.sub(r'\(1 << ipfilter::top_nibble\(\(*val( << 4\))*\)\)', 'SYM', x)
    both = lambda fld, op: (r'((NODE.%s & SYM) %s 0)' % (fld, op), r'((SYM & NODE.%s) %s 0)' % (fld, op))
    for s, v in ret_assigns(l):
        gs = [norm(g) for g in guards_S(l, s.bb)]
        if v == '1':
            ctx.check('lookup|true|inset', bool(gs) and gs[-1] in both('inset', '!='), 'returns true under %s' % gs[-1:], s.where(), sample=gs[-1:])
        elif v == '0':
            ok = len(gs) >= 2 and gs[-2] in both('inset', '==') and gs[-1] in both('outset', '!=')
            ctx.check('lookup|false|outset-after-inset', ok, 'returns false under %s' % gs[-2:], s.where(), sample=gs[-2:])
        else:
            ctx.check('lookup|result-form', False, 'lookup returns %s' % v, s.where())
    tn = l.calls(r'ipfilter::top_nibble$')
    syms = sorted({S(l.call_args(s)[0]) for s in tn})
    ctx.check('lookup|symbol', len(tn) == 1 and all(re.match(r'^\(*val( << 4\))*$', x) for x in syms), 'the symbol is the top nibble of %s' % syms, sample=syms)
    # the address is advanced by one nibble per level: the variable top_nibble reads is reassigned `itself << 4`
    sh = []
    for s in tn:
        rl = root_local(l, s.data['args'][0])
        sh += [S(l._def_term(dd, ())) for dd in (l.defs().get(rl, []) if rl is not None else []) if dd[2] == 'assign']
    ctx.check('lookup|shift', len(sh) == 1 and re.match(r'^\(+val( << 4\))+$', sh[0]) is not None, 'address advanced by %s' % sh, sample=sh)
    idx = [[S(a) for a in l.call_args(s)] for s in l.calls(r'Vec::index$|Index::index$')]
    ctx.check('lookup|root-node', any(a == ['self.nodes', '0'] for a in idx), 'the walk does not start at nodes[0]: %s' % [a[:1] for a in idx], sample=len(idx))
    child = [norm(a[1]) for a in idx if a[0] == 'self.nodes' and a[1] != '0']
    ctx.check('lookup|child-index', child == ['((NODE.child_offset + num::count_ones((!((NODE.inset | NODE.outset)) & (SYM - 1)))) as usize)'], 'child index = %s' % child, sample=child)
    f = P.body(T + 'BitTree::fill_node')
    dw = deref_writes(f)
    nd = r'Vec::index_mut\(self\.nodes, node_index\)'
    co = [v for _, t, v in dw if re.match('^%s\\.child_offset$' % nd, t)]
    ctx.check('fill_node|child_offset', co == ['(Vec::len(self.nodes) as u32)'], 'child_offset = %s' % co, sample=co)
    clr = [v for _, t, v in dw if re.match('^%s\\.outset$' % nd, t) and re.search(r'& !\(', v)]
    ctx.check('fill_node|outset-cleared-by-inset', clr == ['(Vec::index_mut(self.nodes, node_index).outset & !(Vec::index_mut(self.nodes, node_index).inset))'], 'outset masking %s' % clr, sample=len(clr))
    oset = [(s, v) for s, t, v in dw if re.match('^%s\\.outset$' % nd, t) and re.search(r'\| \(1 << ', v)]
    ctx.check('fill_node|outset-sites', len(oset) == 1, 'outset set at %d sites' % len(oset), sample=len(oset))
    for s, v in oset:
        ctx.guard(f, s, 'empty-segment', fact_is(r'^Option::copied\(slice::first\(', ['None']), key='fill_node|outset|only-empty-segment')
    sh = sorted(N(f.rvalue_term(s.data['rv'])) if False else v[-12:] for s, t, v in dw if re.search(r'\.0\.[01]$', t))
    ctx.check('fill_node|descend', sh == [' as Some).0.0 << 4)'[-12:], ' as Some).0.1 - 4)'[-12:]] or sorted(x.strip() for x in sh) == sorted(['.0.0 << 4)', '.0.1 - 4)']) or
              (len(sh) == 2 and sh[0].endswith('<< 4)') and sh[1].endswith('- 4)')) or (len(sh) == 2 and sh[1].endswith('<< 4)') and sh[0].endswith('- 4)')),
              'descending one level rewrites (value, length) as %s' % sh, sample=sh)
    # name-free from here: the 16 buckets are the two user arrays of length 16 (found by type); everything else is compared in expanded form
    buckets = [(lc['name'], lc['ty']) for lc in f.locals if lc.get('user') and lc.get('name') and re.search(r'; 16\]$', lc['ty'])]
    ctx.check('fill_node|sixteen-buckets', sorted(t for _, t in buckets) == ['[&mut [(u128, u8)]; 16]', '[usize; 16]'], 'bucket arrays %s' % buckets, sample=[t for _, t in buckets])
    sub = re.escape(([n for n, t in buckets if t.startswith('[&mut')] or ['\0'])[0])
    SEG = r'\(Enumerate::next\(I::into_iter\(Iterator::enumerate\(slice::iter(_mut)?\(%s\)\)\)\) as Some\)\.0' % sub
    PLEN = r'\(Option::copied\(slice::first\(%s\.1\)\) as Some\)\.0\.1' % SEG
    rng = [S(f.rvalue_term(s.data['rv'])) for s in f.aggregates(r'::Range$')]
    ctx.check('fill_node|short-prefix-span', len(rng) == 1 and re.match(r'^Range\{start: 0, end: \(1 << \(4 - %s\)\)\}$' % PLEN, rng[0]) is not None, 'short prefix covers %s' % rng, sample=rng)
    for s in f.aggregates(r'::Range$'):
        ctx.guard(f, s, 'len<=4', fact_cmp('Le', '^%s$' % PLEN, r'^4$'), key='fill_node|short-prefix|len<=4')
    rec = f.calls(r'BitTree::fill_node$')
    ra = [[S(a) for a in f.call_args(x)] for x in rec]
    ok = len(rec) == 1 and ra[0][0] == 'self' and re.match('^%s\\.1$' % SEG, ra[0][1]) is not None and re.match(r'^(\w+)\{\(\1 \+ 1\) \| Vec::len\(self\.nodes\)\}$', ra[0][2]) is not None
    ctx.check('fill_node|recursion', ok, 'recursive call %s' % ra, sample=len(rec))
    KNOWN = r'\(Vec::index_mut\(self\.nodes, node_index\)\.inset \| Vec::index_mut\(self\.nodes, node_index\)\.outset\)'
    for s in rec:
        ctx.guard(f, s, 'undecided', fact_cmp('Eq', r'^\(%s & \(1 << %s\.0\)\)$' % (KNOWN, SEG), r'^0$'), key='fill_node|recursion|only-undecided')
    ext = [S(f.call_args(x)[1]) for x in f.calls(r'repeat_n$')]
    cz = [S(f.call_args(x)[0]) for x in f.calls(r'num::count_zeros$')]
    ctx.check('fill_node|children-allocated', len(ext) == 1 and len(cz) == 1 and re.match('^%s$' % KNOWN, cz[0]) is not None and ext[0] == '(num::count_zeros(%s) as usize)' % cz[0],
              'children allocated: repeat_n(.., %s), count_zeros(%s)' % (ext, cz), sample=[ext, cz])

RULES = [r1, r2, r3, r4]
FLOORS = {'C31-R1': 9, 'C31-R2': 12, 'C31-R3': 6, 'C31-R4': 20}
