"""C31 — IP filters match exactly the configured subnets (structural part)."""
import re
from engine.rulelib import *
from engine.run import site_desc
from engine import panic

EXPLANATION = (
    "GUARD/FLOW/PANIC rules: IpSubnet::from_str returns Ok only past split_once('/'), a successful address parse, a u8 mask "
    "parse, canonicalisation of IPv4-mapped IPv6 subnets with mask.checked_sub(96), and mask <= 32/128 by (canonical) family; "
    "IpFilter::is_in canonicalises the client address with IpAddr::to_canonical (only IPv4-mapped addresses become IPv4) and "
    "dispatches V4 to the IPv4 tree and V6 to the IPv6 tree; IpFilter::new routes subnets by family using the same bit "
    "placement (IPv4 value << 96) that the lookup uses; no reachable panic in lookup/creation."
)
NOT_DECIDED = ["the set semantics of the bit trie itself (coverage merging, child indexing): value-level, not decided"]
F = 'ntp_proto::ipfilter::IpFilter'
FS = '<ntp_proto::server::IpSubnet as core::str::traits::FromStr>::from_str'


def r1(ctx):
    ctx.rule('C31-R1', 'IpSubnet::from_str: Ok only past split_once(\'/\') Some, address parse Ok, u8 mask parse Ok, mask <= max_mask with max_mask 32 '
             'for V4 / 128 for V6 of the canonicalised address; IPv4-mapped V6 subnets become (canonical V4, mask.checked_sub(96)?)')
    b = ctx.P.body(FS)
    oks = [(s, v) for s, v in ret_assigns(b) if v.startswith('Result::Ok')]
    ctx.check('from_str|ok-sites', len(oks) == 1, 'Ok sites: %d' % len(oks), sample=len(oks))
    for s, v in oks:
        ctx.guard(b, s, 'has-slash', fact_is(r'^Result::branch\(Option::ok_or\(str::split_once\(s, 47\)', 'Continue'), key='from_str|Ok|split')
        ctx.guard(b, s, 'addr-parses', fact_is(r'^Result::branch\(str::parse\(addr\)\)$', 'Continue', names=True), key='from_str|Ok|addr')
        ctx.guard(b, s, 'mask-parses', fact_is(r'^Result::branch\(Result::map_err\(str::parse\(mask\)', 'Continue', names=True), key='from_str|Ok|mask')
        ctx.guard(b, s, 'mask-in-range', fact_cmp('Le', r'^mask', r'^max_mask\{128 \| 32\}$', names=True), key='from_str|Ok|mask<=max')
    li = one([i for i, l in enumerate(b.locals) if l.get('name') == 'max_mask'], 'max_mask')
    tab = {}
    for d in b.defs()[li]:
        v = S(b._def_term(d, ()))
        for fam in ('V4', 'V6'):
            if b.must_pass(d[0], fact_is(r'.', [fam])):
                tab[fam] = v
    ctx.check('from_str|max-mask-table', tab == {'V4': '32', 'V6': '128'}, 'mask limits %s' % tab, sample=tab)
    cs = one(b.calls(r'::checked_sub$'), 'checked_sub(96)')
    ctx.check('from_str|mapped-mask', S(b.call_args(cs)[1]) == '96', 'mapped mask offset %s' % S(b.call_args(cs)[1]), cs.where(), sample=S(b.call_args(cs)[1]))
    ctx.guard(b, cs, 'v6-input', fact_is(r'^addr', ['V6'], names=True), key='from_str|mapped|v6-input')
    ctx.guard(b, cs, 'v4-canonical', fact_is(r'IpAddr::to_canonical\(', ['V4']), key='from_str|mapped|canonical-v4')
    ty = [S(b.call_args(c)[0]) for c in b.calls(r'str::parse$')]
    mt = [l['ty'] for l in b.locals if l.get('name') == 'mask']
    ctx.check('from_str|mask-type', 'u8' in mt, 'mask parsed as %s' % mt, sample=mt)


def r2(ctx):
    ctx.rule('C31-R2', 'IpFilter::is_in = match addr.to_canonical() { V4 => ipv4 tree lookup of (u32 << 96), V6 => ipv6 tree lookup of the u128 }; '
             'IpFilter::new puts V4 subnets (same << 96 placement) into the ipv4 tree and V6 subnets into the ipv6 tree')
    P = ctx.P
    b = P.body(F + '::is_in')
    can = b.calls(r'IpAddr::to_canonical$')
    ctx.check('is_in|to_canonical', len(can) == 1 and S(b.call_args(can[0])[0]) == 'addr', 'address normalisation calls: %s' % [short_name(b.callee(c)['def']) for c in b.calls()], sample=[short_name(b.callee(c)['def']) for c in b.calls()])
    conv = [c for c in b.calls(r'Ipv6Addr::(to_ipv4|to_ipv4_mapped)$|IpAddr::(is_ipv4|to_ipv4)')]
    ctx.check('is_in|no-other-conversion', not conv, 'is_in converts addresses with %s' % [short_name(b.callee(c)['def']) for c in conv], sample=len(conv))
    for fn, fam in (('is_in4', 'V4'), ('is_in6', 'V6')):
        c = one(b.calls(r'IpFilter::%s$' % fn), fn)
        ctx.guard(b, c, 'family', fact_is(r'^IpAddr::to_canonical\(addr\)$', [fam]), key='is_in|%s|family' % fn)
        ctx.check('is_in|%s|arg' % fn, re.match(r'^\(IpAddr::to_canonical\(addr\) as %s\)\.0$' % fam, S(b.call_args(c)[1])) is not None, 'argument %s' % S(b.call_args(c)[1]), c.where(), sample=S(b.call_args(c)[1]))
    i4 = P.body(F + '::is_in4')
    l4 = one(i4.calls(r'BitTree::lookup$'), 'lookup in is_in4')
    a = [S(x) for x in i4.call_args(l4)]
    ctx.check('is_in4|tree-and-placement', a == ['self.ipv4_filter', '((num::from_be_bytes(Ipv4Addr::octets(addr)) as u128) << 96)'], 'is_in4 looks up %s' % a, l4.where(), sample=a)
    i6 = P.body(F + '::is_in6')
    l6 = one(i6.calls(r'BitTree::lookup$'), 'lookup in is_in6')
    a = [S(x) for x in i6.call_args(l6)]
    ctx.check('is_in6|tree', a == ['self.ipv6_filter', 'num::from_be_bytes(Ipv6Addr::octets(addr))'], 'is_in6 looks up %s' % a, l6.where(), sample=a)
    n = P.body(F + '::new')
    for p in n.calls(r'Vec::push$'):
        lst = N(n.call_args(p)[0])
        val = S(n.call_args(p)[1])
        if lst == 'ipv4list':
            ctx.guard(n, p, 'v4-subnet', fact_is(r'\.addr$', ['V4']), key='new|ipv4list|family')
            ctx.check('new|ipv4list|placement', re.match(r'^\(\(\(num::from_be_bytes\(Ipv4Addr::octets\(.*\)\) as u128\) << 96\), .*\.mask\)$', val) is not None, 'ipv4 entry %s' % val[:120], p.where(), sample=val[:160])
        else:
            ctx.guard(n, p, 'v6-subnet', fact_is(r'\.addr$', ['V6']), key='new|ipv6list|family')
            ctx.check('new|ipv6list|value', re.match(r'^\(num::from_be_bytes\(Ipv6Addr::octets\(.*\)\), .*\.mask\)$', val) is not None, 'ipv6 entry %s' % val[:120], p.where(), sample=val[:160])
    lit = one(n.aggregates(r'ipfilter::IpFilter$'), 'IpFilter literal')
    f = {k: N(n.operand_term(o)) for k, o in zip(lit.data['rv']['fields'], lit.data['rv']['ops'])}
    ctx.check('new|trees', 'ipv4list' in f['ipv4_filter'] and 'ipv6list' in f['ipv6_filter'], 'trees built from %s' % f, lit.where(), sample=f)


def r3(ctx):
    panic.property_rule(ctx, 'C31', 'C31-R3')


RULES = [r1, r2, r3]
FLOORS = {'C31-R1': 9, 'C31-R2': 12, 'C31-R3': 6}
