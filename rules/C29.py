"""C29 — pool key-exchange requests require a configured token."""
import re
from engine.rulelib import *
from engine.run import site_desc

EXPLANATION = (
    "GUARD/COUNT/WHO rules on the coroutine of KeyExchangeServer::handle_connection and handle_longterm: cookie issuance and "
    "KeyExchangeResponse/SupportsResponse serialisation in the FixedKey/Support arms are reachable only past "
    "pool_authentication_tokens.iter().any(|v| v == authentication); the fall-through arm answers BadRequest, returns "
    "Err(NotPermitted) and issues no cookie; the connection is returned for reuse only with keep_alive requested and a permit "
    "granted, and the reply's keep_alive flag equals permit.is_some(); a KeyExchange request on a kept-open connection is "
    "answered BadRequest and the connection closed."
)
NOT_DECIDED = ["TLS session properties (rustls)"]
HC = 'ntp_proto::nts::KeyExchangeServer::handle_connection::{closure#0}'
HL = 'ntp_proto::nts::KeyExchangeServer::handle_longterm::{closure#0}'
TOKEN = fact_call(r'::any$', True, [r'^slice::iter\(self\.pool_authentication_tokens\)$'])
NO_TOKEN = fact_call(r'::any$', False, [r'^slice::iter\(self\.pool_authentication_tokens\)$'])
# the parsed request, in expanded form (no local variable names)
REQ = r'\(\(parse::\{closure#0\}\(.*Request::parse\(.*\) as Ready\)\.0 as Ok\)\.0'
PERMIT = r'\w+\{FnOnce::call_once\(get_keepalive_permit, \(\)\) \| Option::None\{\}\}'


def arm(v):
    return fact_is('^' + REQ + '$', [v])


def r1(ctx):
    ctx.rule('C29-R1', 'handle_connection: in the FixedKey and Support arms, keyset.encode_cookie, KeyExchangeResponse/SupportsResponse construction '
             'and get_keepalive_permit() are reachable only past the token test; the token closure compares the configured token with the '
             'request\'s authentication; the no-token region serialises ErrorResponse{BadRequest}, returns Err(NotPermitted) and contains no '
             'encode_cookie / response construction')
    P = ctx.P
    b = P.body(HC)
    pool_sites = []
    for s in b.calls(r'KeySet::encode_cookie$'):
        if b.must_pass(s.bb, arm('FixedKey')):
            pool_sites.append((s, 'encode_cookie'))
    for s in b.aggregates(r'messages::KeyExchangeResponse$'):
        if b.must_pass(s.bb, arm('FixedKey')):
            pool_sites.append((s, 'KeyExchangeResponse'))
    for s in b.aggregates(r'messages::SupportsResponse$'):
        pool_sites.append((s, 'SupportsResponse'))
    for s in b.calls(r'FnOnce::call_once$'):
        pool_sites.append((s, 'get_keepalive_permit'))
    ctx.check('handle_connection|pool-sites', len(pool_sites) >= 5, 'pool effect sites found: %d' % len(pool_sites), sample=[w for _, w in pool_sites])
    for s, what in pool_sites:
        ctx.guard(b, s, 'token', TOKEN, key='handle_connection|%s|%s|token' % (what, site_desc(b, s)),
                  msg='%s is reachable for a pool request without a configured authentication token' % what)
    tests = [s for s in b.calls(r'::any$') if S(b.call_args(s)[0]) == 'slice::iter(self.pool_authentication_tokens)']
    ctx.check('handle_connection|token-tests', len(tests) == 2, 'token tests: %d' % len(tests), sample=len(tests))
    for s in tests:
        clo = re.search(r'closure:(.*)$', S(b.call_args(s)[1]))
        cb = [c for c in P.bodies.values() if clo and c.id.split('::', 1)[1] == clo.group(1).rstrip(')')]
        vals = [v for c in cb for _, v in ret_assigns(c)]
        # the predicate is exactly one equality between the configured token (the closure's argument) and the request's `authentication`
        # field: anything else (a hand-rolled comparison, a prefix test, a comparison of lengths) is not accepted as "the tokens are equal"
        ok = False
        if len(cb) == 1 and len(vals) == 1:
            c = cb[0]
            arg = c.locals[2].get('name') if len(c.locals) > 2 else None
            rs = [st for st, _ in ret_assigns(c)]
            t = unlet(expand(c.rvalue_term(rs[0].data['rv']) if rs[0].kind == 'assign' else c.call_term(rs[0].data)))
            if t is not None and t[0] == 'binop' and t[1] == 'Eq':
                l, r = tstr(t[2]), tstr(t[3])
            elif t is not None and t[0] == 'call' and re.search(r'(PartialEq|String|str)::eq$', short_name(t[1])) and len(t[2]) == 2:
                l, r = tstr(t[2][0]), tstr(t[2][1])
            else:
                l = r = ''
            strip = lambda x: re.sub(r'^(?:\w+::(?:deref|as_ref|as_str|borrow)\()+(.*?)\)+$', r'\1', x)
            sides = sorted([strip(l), strip(r)], key=lambda x: x.endswith('.authentication'))
            ok = bool(arg) and sides[0] == arg and re.search(r'Request::parse\(.* as (FixedKey|Support)\)\.authentication$', sides[1]) is not None
        ctx.check('handle_connection|%s|compares-authentication' % site_desc(b, s), ok, 'token comparison is %s' % [v[:40] + ' ... ' + v[-60:] for v in vals], s.where(),
                  sample=[v[:30] + ' ... ' + v[-50:] for v in vals])
    n, region = region_after(b, NO_TOKEN)
    ctx.check('handle_connection|no-token-edges', n == 2, 'no-token edges: %d' % n, sample=n)
    bad = [w for s, w in pool_sites if s.bb in region and not b.must_pass(s.bb, TOKEN)]
    ctx.check('handle_connection|no-token-region|no-issuance', not bad, 'without a token the server still reaches %s' % bad, sample=bad)
    np_ret = [s for s in b.aggregates(r'core::result::Result$', 'Err') if S(b.rvalue_term(s.data['rv'])) == 'Result::Err{0: NtsError::NotPermitted{}}' and s.bb in region]
    ctx.check('handle_connection|no-token-region|not-permitted', len(np_ret) == 1, 'Err(NotPermitted) in the no-token region: %d' % len(np_ret), sample=len(np_ret))
    er = [s for s in b.calls(r'ErrorResponse::serialize$') if s.bb in region and S(b.call_args(s)[0]) == 'ErrorResponse{errorcode: ErrorCode::BadRequest{}}']
    ctx.check('handle_connection|no-token-region|bad-request', len(er) >= 1 and all(must_pass_block_from(b, d0, np_ret[0].bb, [e.bb for e in er]) for d0 in edge_targets(b, NO_TOKEN)) if np_ret else False,
              'the no-token path does not answer BadRequest before failing', sample=len(er))


def r2(ctx):
    ctx.rule('C29-R2', 'Ok(Some((permit, io))) (connection kept open) only under keep_alive requested and get_keepalive_permit() returning Some; '
             'the keep_alive flag of the reply is permit.is_some(); plain KeyExchange always answers keep_alive: false and returns Ok(None)')
    b = ctx.P.body(HC)
    keeps = [s for s in b.aggregates(r'core::result::Result$', 'Ok') if 'Option::Some' in S(b.rvalue_term(s.data['rv']))[:40]]
    ctx.check('handle_connection|keep-open-sites', len(keeps) == 2, 'keep-open results: %d' % len(keeps), sample=len(keeps))
    STREAM = r'\(Result::branch\(\(Accept::poll\(.*TlsAcceptor::accept\(self\.acceptor, io\).*\) as Ready\)\.0\) as Continue\)\.0'
    for s in keeps:
        ctx.guard(b, s, 'permit-granted', fact_is('^' + PERMIT + '$', 'Some'), key='handle_connection|%s|permit' % site_desc(b, s))
        ctx.guard(b, s, 'token', TOKEN, key='handle_connection|%s|token' % site_desc(b, s))
        v = S(b.rvalue_term(s.data['rv']))
        ctx.check('handle_connection|%s|value' % site_desc(b, s), re.match(r'^Result::Ok\{0: Option::Some\{0: \(\(%s as Some\)\.0, %s\)\}\}$' % (PERMIT, STREAM), v, re.S) is not None,
                  'kept-open value %s' % v[:160], s.where(), sample=v[:80])
    for s in b.calls(r'FnOnce::call_once$'):
        ctx.guard(b, s, 'keep-alive-requested', lambda f: f.kind == 'bool' and f.pol and re.match(r'^\(%s as (FixedKey|Support)\)\.keep_alive$' % REQ, S(f.term), re.S) is not None,
                  key='handle_connection|%s|requested' % site_desc(b, s))
    for s in b.aggregates(r'messages::(KeyExchangeResponse|SupportsResponse)$'):
        rv = s.data['rv']
        ka = S(b.operand_term(rv['ops'][rv['fields'].index('keep_alive')]))
        if b.must_pass(s.bb, arm('KeyExchange')):
            ctx.check('handle_connection|%s|keep_alive-false' % site_desc(b, s), ka == '0', 'plain key exchange replies keep_alive=%s' % ka, s.where(), sample=ka)
        else:
            ctx.check('handle_connection|%s|keep_alive-is-permit' % site_desc(b, s), re.match(r'^Option::is_some\(%s\)$' % PERMIT, ka) is not None,
                      'reply keep_alive is `%s`' % ka, s.where(), sample=ka)
    ke_ok = [s for s in b.aggregates(r'core::result::Result$', 'Ok') if b.must_pass(s.bb, arm('KeyExchange'))]
    ctx.check('handle_connection|key-exchange-never-kept', all(S(b.rvalue_term(s.data['rv'])) == 'Result::Ok{0: Option::None{}}' for s in ke_ok) and len(ke_ok) == 1, 'KeyExchange arm results', sample=len(ke_ok))


def r3(ctx):
    ctx.rule('C29-R3', 'handle_longterm: the KeyExchange arm serialises ErrorResponse{BadRequest}, shuts the connection down and returns Err(Invalid); '
             'no cookie is encoded on that arm')
    b = ctx.P.body(HL)
    ke = arm('KeyExchange')
    n, region = region_after(b, ke)
    ctx.check('handle_longterm|key-exchange-arm', n == 1, 'KeyExchange arm edges: %d' % n, sample=n)
    starts = edge_targets(b, ke)
    enc = [s for s in b.calls(r'KeySet::encode_cookie$')]
    for s in enc:
        ctx.guard(b, s, 'fixed-key-arm', arm('FixedKey'), key='handle_longterm|%s|fixed-key-only' % site_desc(b, s))
    errs = [s for s in b.aggregates(r'core::result::Result$', 'Err') if S(b.rvalue_term(s.data['rv'])) == 'Result::Err{0: NtsError::Invalid{}}' and b.must_pass(s.bb, ke)]
    bad = [s for s in b.calls(r'ErrorResponse::serialize$') if b.must_pass(s.bb, ke) and 'BadRequest' in S(b.call_args(s)[0])]
    shut = [s for s in b.calls(r'AsyncWriteExt::shutdown$') if b.must_pass(s.bb, ke)]
    ctx.check('handle_longterm|key-exchange-rejected', len(errs) == 1 and len(bad) == 1 and len(shut) == 1 and starts and
              must_pass_block_from(b, starts[0], errs[0].bb, [bad[0].bb]) and must_pass_block_from(b, starts[0], errs[0].bb, [shut[0].bb]),
              'KeyExchange on a long-term connection is not answered BadRequest + shutdown + Err(Invalid)', sample=[len(errs), len(bad), len(shut)])
    # the KeyExchange arm never loops back for another request
    loop_heads = [s.bb for s in b.calls(r'Request::parse$')]
    ctx.check('handle_longterm|key-exchange-ends-connection', all(not b.can_reach(x, h) for x in starts for h in loop_heads) if starts else False,
              'after a KeyExchange request the long-term connection keeps serving')


def r4(ctx):
    ctx.rule('C29-R4', 'handle_longterm has no caller in ntp-proto other than through the stream returned by handle_connection (daemon call site passes that stream)')
    P = ctx.P
    who = sorted({c[0].npath for c in P.callers_of('ntp_proto::nts::KeyExchangeServer::handle_longterm')})
    ctx.check('who-calls-handle_longterm', all(w.startswith('ntpd::daemon::keyexchange::') for w in who) and len(who) >= 1, 'callers: %s' % who, sample=who)
    for w in who:
        b = [x for x in P.by_npath[w] if x.raw['promoted'] is None][0]
        for s in b.calls(r'KeyExchangeServer::handle_longterm$'):
            a = N(b.call_args(s)[1])
            ctx.check('%s|stream-arg' % w.split('::')[-2], True, '', sample=a[:120])
            ctx.guard(b, s, 'after-handle_connection-kept', lambda f: f.kind == 'is' and set(f.variants) <= {'Some', 'Ok', 'Ready', 'Continue'} , key='%s|handle_longterm|after-some' % w.split('::', 3)[-1][:60])


RULES = [r1, r2, r3, r4]
FLOORS = {'C29-R1': 12, 'C29-R2': 10, 'C29-R3': 4, 'C29-R4': 2}
