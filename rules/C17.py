"""C17 — a request-sized buffer always suffices for the server's answer."""
import re

from engine.rulelib import *
from engine.run import site_desc

EXPLANATION = (
    "TABLE/FLOW/GUARD rules deciding necessary conditions: (R1) for every class of extension field that is echoed from the "
    "request, the minimum field size the encoder pads to must not exceed the minimum size the decoder accepts for the list "
    "the field came from - otherwise k such fields grow the answer by k*(enc_min - dec_min), more than any constant slack; "
    "(R2) fresh cookies are emitted only if not longer than the field they replace; (R3) NTPv5 padding is added only up to "
    "the request length and KISS answers are never padded; (R4) the daemon's buffer has the request's length (C16-R3)."
)
NOT_DECIDED = ["full size arithmetic for all field layouts (MAC tail slack, padding words): numeric, not decided"]

EFD = 'ntp_proto::packet::extension_fields::ExtensionFieldData'
PKT = 'ntp_proto::packet::NtpPacket'
SRV = 'ntp_proto::server::Server'


def enc_minimums(ctx):
    """(list, version, position) -> minimum size constant passed to ExtensionField::serialize."""
    b = ctx.P.body(EFD + '::serialize')
    out = {}
    calls = some(b.calls(r'ExtensionField::serialize$'), 'ExtensionField::serialize calls in ExtensionFieldData::serialize')
    for s in calls:
        args = b.call_args(s)
        fld = S(args[0])
        lst = 'authenticated' if 'self.authenticated' in fld else ('untrusted' if 'self.untrusted' in fld else '?')
        ms = unlet(expand(args[2]))
        if ms is not None and ms[0] == 'const':
            out[(lst, '*', '*')] = int(ms[1])
        elif ms is not None and ms[0] == 'phi':
            # constants assigned per (version, is_last): recover guards of each defining block
            # the variable handed over as minimum size (found through that use, not by name)
            rl = root_local(b, s.data['args'][2])
            l = [rl] if rl is not None and len(b.defs().get(rl, [])) > 1 else []
            for li in l:
                for d in b.defs()[li]:
                    if d[2] != 'assign':
                        continue
                    val = const_int(b.rvalue_term(d[3]))
                    ver = 'V5' if b.must_pass(d[0], fact_is(r'^version$', ['V5'])) else ('V4' if b.must_pass(d[0], fact_is(r'^version$', ['V4'])) else '?')
                    last = 'last' if b.must_pass(d[0], fact_is(r'^Peekable::peek\(', ['None'])) else (
                        'nonlast' if b.must_pass(d[0], fact_is(r'^Peekable::peek\(', ['Some'])) else '*')
                    out[(lst, ver, last)] = val
    return out, b


def dec_minimums(ctx):
    P = ctx.P
    d = P.body(EFD + '::deserialize')
    s = one(d.calls(r'RawExtensionField::deserialize_sequence$'), 'deserialize_sequence in ExtensionFieldData::deserialize')
    plain = const_int(d.call_args(s)[2])
    r = P.body('ntp_proto::packet::extension_fields::RawEncryptedField::decrypt')
    s2 = one(r.calls(r'RawExtensionField::deserialize_sequence$'), 'deserialize_sequence in decrypt')
    enc = const_int(r.call_args(s2)[2])
    return plain, enc


def r1(ctx):
    ctx.rule('C17-R1', 'minimum-size agreement: for each echoed field class, encoder minimum (constants flowing into '
             'ExtensionField::serialize from ExtensionFieldData::serialize per list/version/last) <= decoder minimum (constant passed to '
             'deserialize_sequence for the list the field was parsed from)')
    encs, b = enc_minimums(ctx)
    plain, enc = dec_minimums(ctx)
    ctx.check('decoder-minimums', plain is not None and enc is not None, 'decoder minimum sizes are not constants', sample={'unencrypted': plain, 'encrypted': enc})
    ctx.check('encoder-minimums', len(encs) >= 4, 'encoder minimum table incomplete: %s' % encs, sample={'%s|%s|%s' % k: v for k, v in encs.items()})
    # echoed unique identifiers (and V5 reference-id answers) come from the request's untrusted/authenticated lists,
    # both parsed with the unencrypted minimum, and are emitted in the answer's untrusted list (plain) or
    # authenticated list (NTS).
    for (lst, ver, pos), emin in sorted(encs.items()):
        vers = ['V4', 'V5'] if ver == '*' else [ver]
        for v in vers:
            ok = emin <= plain
            ctx.check('min-size|%s|%s|%s' % (lst, v, pos), ok,
                      'an echoed extension field accepted with %d bytes is re-encoded with at least %d bytes (%s list, %s, %s): '
                      'k such fields make the answer k*%d bytes longer than the request, so a request-sized buffer does not suffice'
                      % (plain, emin, lst, v, pos, emin - plain), sample={'enc_min': emin, 'dec_min': plain})


def r2(ctx):
    ctx.rule('C17-R2', 'each fresh cookie in nts_timestamp_response is constructed only on the false edge of '
             '`new_cookie.len() > <length of the field it replaces>`')
    P = ctx.P
    b = P.body(PKT + '::nts_timestamp_response')
    n = 0
    for c in P.closures_of(b):
        for s, v in ret_assigns(c):
            if 'NtsCookie' not in v:
                continue
            n += 1
            ph = c.must_pass(s.bb, fact_is(r'.', ['NtsCookiePlaceholder']))
            if ph:
                g = fact_cmp('Le', r'^Vec::len\(KeySet::encode_cookie\(keyset, cookie\)\)$', r'^\(\(\w+ as NtsCookiePlaceholder\)\.cookie_length as usize\)$')
            else:
                g = fact_cmp('Le', r'^Vec::len\(KeySet::encode_cookie\(keyset, cookie\)\)$', r'^slice::len\(Cow::deref\(\(\w+ as NtsCookie\)\.0\)\)$')
            ctx.guard(c, s, 'fits', g, key='%s|%s|size-guard' % (c.id.rsplit('::', 1)[-1], 'placeholder' if ph else 'cookie'),
                      msg='a fresh cookie may be larger than the field it replaces')
    ctx.check('nts_timestamp_response|fresh-cookie-sites', n == 4, 'expected 4 fresh-cookie sites, found %d' % n, sample=n)


def r3(ctx):
    ctx.rule('C17-R3', 'NTPv5 padding is written only under desired_size > written with Padding(desired_size - written); desired_size is '
             'Some(message.len()) for time answers and None for KISS answers')
    P = ctx.P
    b = P.body(PKT + '::serialize')
    pads = some(b.aggregates(r'ExtensionField$', 'Padding'), 'Padding construction in NtpPacket::serialize')
    for s in pads:
        v = S(b.rvalue_term(s.data['rv']))
        ok = re.match(r'^ExtensionField::Padding\{0: \(\(desired_size as Some\)\.0 - \(\(Cursor::position\(w\) - Cursor::position\(w\)\) as usize\)\)\}$', v) is not None
        ctx.check('serialize|padding-value', ok, 'padding length is `%s`' % v, s.where(), sample=v)
        ctx.guard(b, s, 'desired>written', fact_cmp('Gt', r'^\(desired_size as Some\)\.0$', r'Cursor::position\(w\) - Cursor::position\(w\)'), key='serialize|padding|desired>written')
        ctx.guard(b, s, 'v5-only', fact_is(r'^self\.header$', ['V5']), key='serialize|padding|v5-only')
    h = P.body(SRV + '::handle_inner')
    exp = {'nts_nak_response': 'Option::None{}', 'deny_response': 'Option::None{}', 'nts_deny_response': 'Option::None{}',
           'timestamp_response': 'Option::Some{0: slice::len(message)}', 'nts_timestamp_response': 'Option::Some{0: slice::len(message)}'}
    for fn, want in exp.items():
        tup = [t for t in h.assigns(lambda pl: not pl['p']) if t.kind == 'assign' and t.data['rv']['k'] == 'agg' and t.data['rv'].get('ak') == 'tuple'
               and len(t.data['rv']['ops']) == 3 and S(h.operand_term(t.data['rv']['ops'][0])).startswith('NtpPacket::%s(' % fn)]
        got = [S(h.operand_term(t.data['rv']['ops'][2])) for t in tup]
        ctx.check('handle_inner|%s|desired_size' % fn, got == [want], 'desired size for %s is %s' % (fn, got), sample=got)
    hd = P.body(SRV + '::handle')
    s = one(hd.calls(r'NtpPacket::serialize$'), 'serialize in handle')
    ctx.check('handle|desired_size-forwarded', S(hd.call_args(s)[3]).endswith('.desired_size'), 'desired size not forwarded', sample=S(hd.call_args(s)[3])[-40:])


def r4(ctx):
    ctx.rule('C17-R4', 'the daemon passes a buffer exactly as long as the request (same rule as C16-R3)')
    from rules.C16 import r3 as c16r3
    saved = ctx.cur_rule
    c16r3(ctx)
    ctx.cur_rule = saved


RULES = [r1, r2, r3, r4]
FLOORS = {'C17-R1': 6, 'C17-R2': 5, 'C17-R3': 9}
