"""C26 — server cookies: issued under the newest key, looked up by wrapped id, keys rotate on schedule (structural part)."""
import re

from engine.rulelib import *
from engine.run import site_desc

EXPLANATION = (
    "FLOW/GUARD rules on KeySet::{encode_cookie,decode_cookie} and KeySetProvider::rotate: cookies are encrypted with "
    "keys[primary] and labelled primary.wrapping_add(id_offset); decoding looks up keys.get(id.wrapping_sub(id_offset)) "
    "(checked lookup) and decrypts nonce = cookie[6..22], ciphertext = cookie[22..][..declared length]; decode guards "
    "(length >= 22, declared length within the cookie, key widths) dominate all slicing; rotate keeps the last `history` "
    "keys, appends the new key as primary and advances id_offset by the number of dropped keys; the plaintext is "
    "algorithm || s2c key || c2s key in the same order on both sides."
)
NOT_DECIDED = ["confidentiality / tamper evidence of AES-SIV (assumed)", "the validity-window arithmetic over long rotation histories (numeric)"]

KS = 'ntp_proto::keyset::KeySet'
KP = 'ntp_proto::keyset::KeySetProvider'
KEYS = 'Arc::deref(self.current).keys'
LEN = 'Vec::len(%s)' % KEYS


def r1(ctx):
    ctx.rule('C26-R1', 'encode_cookie: encrypt with self.keys[self.primary] and write id = primary.wrapping_add(id_offset) at [0..4], ciphertext '
             'length at [4..6]; decode_cookie: key = self.keys.get(id.wrapping_sub(self.id_offset) as usize) (no panicking index), nonce = '
             'cookie[6..22], ciphertext = cookie[22..].get(..declared)')
    P = ctx.P
    e = P.body(KS + '::encode_cookie')
    enc = one(e.calls(r'Cipher>::encrypt$|AesSivCmac512::encrypt$|Cipher::encrypt$'), 'encrypt call in encode_cookie')
    a = [S(x) for x in e.call_args(enc)]
    ctx.check('encode_cookie|key', a[0] == 'Vec::index(self.keys, (self.primary as usize))', 'cookie encrypted with `%s`' % a[0], enc.where(), sample=a[0])
    ctx.check('encode_cookie|no-aad', a[3] in ('[]', '[]{}', 'array::as_slice([])') or a[3].startswith('['), 'associated data `%s`' % a[3], enc.where(), sample=a[3])
    cps = e.calls(r'slice::copy_from_slice$')
    srcs = sorted(S(e.call_args(c)[1]) for c in cps)
    ok = any('num::to_be_bytes(num::wrapping_add(self.primary, self.id_offset))' in s for s in srcs) and any('ciphertext_length as u16' in s or 'as u16)' in s for s in srcs)
    ctx.check('encode_cookie|header', ok and len(cps) == 2, 'cookie header written from %s' % srcs, sample=srcs)
    dsts = sorted(S(e.call_args(c)[0]) for c in cps)
    ctx.check('encode_cookie|header-positions', all(re.search(r'Range\{start: 0, end: 4\}|Range\{start: 4, end: 6\}', d) for d in dsts), 'header positions %s' % dsts, sample=dsts)
    d = P.body(KS + '::decode_cookie')
    gets = [c for c in d.calls(r'slice::get$') if S(d.call_args(c)[0]) in ('Vec::deref(self.keys)', 'self.keys')]
    ctx.check('decode_cookie|checked-key-lookup', len(gets) == 1 and S(d.call_args(gets[0])[1]) ==
              '(num::wrapping_sub(num::from_be_bytes(Result::unwrap(T::try_into(index::index(cookie, Range{start: 0, end: 4})))), self.id_offset) as usize)',
              'key lookup is %s' % [S(d.call_args(g)[1]) for g in gets], sample=[S(d.call_args(g)[1]) for g in gets])
    idx = [c for c in d.calls(r'ops::index::Index::index$') if S(d.call_args(c)[0]) in ('self.keys', 'Vec::deref(self.keys)')]
    ctx.check('decode_cookie|no-panicking-key-index', not idx, 'decode_cookie indexes self.keys with [] (attacker-chosen id)', sample=len(idx))
    dec = one(d.calls(r'::decrypt$'), 'decrypt call in decode_cookie')
    a = [S(x) for x in d.call_args(dec)]
    ctx.check('decode_cookie|nonce', a[1] == 'index::index(cookie, Range{start: 6, end: 22})', 'nonce is `%s`' % a[1], dec.where(), sample=a[1])
    ctx.check('decode_cookie|ciphertext', re.match(r'^\(Result::branch\(Option::ok_or\(slice::get\(index::index\(cookie, RangeFrom\{start: 22\}\), RangeTo\{end: \(num::from_be_bytes\(\[cookie\[4\], cookie\[5\]\]\) as usize\)\}\), .*\)\) as Continue\)\.0$', a[2]) is not None,
              'ciphertext is `%s`' % a[2][:200], dec.where(), sample=a[2][:240])
    ctx.check('decode_cookie|key-from-lookup', re.match(r'^\((Result::branch\(Option::ok_or\()?slice::get\(Vec::deref\(self\.keys\), ', a[0]) is not None and re.search(r' as (Continue|Some)\)\.0$', a[0]) is not None, 'decrypt key is `%s`' % a[0][:120], dec.where(), sample=a[0][:160])


def r2(ctx):
    ctx.rule('C26-R2', 'rotate: new key list = old keys[len.saturating_sub(history)..len] (copied) then the fresh key; primary = keys.len() - 1; '
             'id_offset = old.wrapping_add(len.saturating_sub(history))')
    P = ctx.P
    b = P.body(KP + '::rotate')
    lit = one(b.aggregates(r'keyset::KeySet$'), 'KeySet literal in rotate')
    rv = lit.data['rv']
    f = {n: S(b.operand_term(o)) for n, o in zip(rv['fields'], rv['ops'])}
    ctx.check('rotate|id_offset', f['id_offset'] == 'num::wrapping_add(Arc::deref(self.current).id_offset, (num::saturating_sub(%s, self.history) as u32))' % LEN,
              'id_offset becomes `%s`' % f['id_offset'], lit.where(), sample=f['id_offset'])
    ctx.check('rotate|primary', re.match(r'^\(\(Vec::len\(Vec::with_capacity\(.*\)\) as u32\) - 1\)$', f['primary']) is not None, 'primary becomes `%s`' % f['primary'], lit.where(), sample=f['primary'])
    idx = one([c for c in b.calls(r'ops::index::Index::index$')], 'slice of kept keys')
    a = S(b.call_args(idx)[1])
    ctx.check('rotate|kept-range', a == 'Range{start: num::saturating_sub(%s, self.history), end: %s}' % (LEN, LEN), 'kept keys are `%s`' % a, idx.where(), sample=a)
    pushes = b.calls(r'Vec::push$')
    ctx.check('rotate|pushes', len(pushes) == 2, 'push sites: %d' % len(pushes), sample=len(pushes))
    new_push = [p for p in pushes if S(b.call_args(p)[1]) == 'AesSivCmac512::new_random()']
    old_push = [p for p in pushes if p not in new_push]
    ctx.check('rotate|new-key-last', len(new_push) == 1 and len(old_push) == 1 and b.can_reach(old_push[0].bb, new_push[0].bb) and not b.can_reach(new_push[0].bb, old_push[0].bb),
              'the fresh key is not appended after the kept keys')
    for p in old_push:
        v = S(b.call_args(p)[1])
        ctx.check('rotate|kept-key-copy', 'AesSivCmac512::key_bytes((Iter::next(' in v and 'as Some).0)' in v, 'kept key value `%s`' % v[:120], p.where(), sample=v[:160])
    n = P.body(KP + '::new')
    lit = one(n.aggregates(r'keyset::KeySet$'), 'KeySet literal in new')
    f = {k: S(n.operand_term(o)) for k, o in zip(lit.data['rv']['fields'], lit.data['rv']['ops'])}
    ctx.check('new|initial', f['id_offset'] == '0' and f['primary'] == '0', 'initial key set %s' % {k: f[k] for k in ('id_offset', 'primary')}, sample={k: f[k] for k in ('id_offset', 'primary')})


def r3(ctx):
    ctx.rule('C26-R3', 'decode_cookie: `cookie.len() < 22 -> Err` dominates all fixed slicing; key material is split only after the width '
             'check `key_bytes.len() == 2*KEY_WIDTH`; plaintext layout algorithm(2) || s2c || c2s on both sides; unknown algorithms rejected')
    P = ctx.P
    d = P.body(KS + '::decode_cookie')
    lenok = fact_cmp('Ge', r'^slice::len\(cookie\)$', r'^22$')
    for c in d.calls(r'ops::index::Index::index$'):
        if S(d.call_args(c)[0]) == 'cookie':
            ctx.guard(d, c, 'len>=22', lenok, key='decode_cookie|%s|len>=22' % site_desc(d, c))
    splits = some(d.calls(r'slice::split_at$'), 'split_at calls')
    widths = {}
    for s in splits:
        w = const_int(d.call_args(s)[1])
        widths[w] = s
        ctx.guard(d, s, 'width-checked', fact_cmp('Eq', r'^len\(|slice::len\(', r'^\(2 \* KEY_WIDTH=%d\)$|^%d$' % (w, 2 * w)), key='decode_cookie|split_at-%s|width-checked' % w)
    ctx.check('decode_cookie|key-widths', sorted(widths) == [32, 64], 'key widths %s' % sorted(widths), sample=sorted(widths))
    lits = d.aggregates(r'keyset::DecodedServerCookie$')
    for s in lits:
        rv = s.data['rv']
        f = {k: S(d.operand_term(o)) for k, o in zip(rv['fields'], rv['ops'])}
        ok = re.search(r'split_at\(.*\)\.0', f['s2c']) is not None and re.search(r'split_at\(.*\)\.1', f['c2s']) is not None
        ctx.check('decode_cookie|%s|key-order' % site_desc(d, s), ok, 's2c/c2s taken from %s / %s' % (f['s2c'][-40:], f['c2s'][-40:]), s.where(), sample=[f['s2c'][-60:], f['c2s'][-60:]])
    ctx.check('decode_cookie|literals', len(lits) == 2, 'DecodedServerCookie literals: %d' % len(lits), sample=len(lits))
    errs = [s for s, v in ret_assigns(d) if v.startswith('Result::Err') and d.must_pass(s.bb, fact_is(r'AeadAlgorithm::from\(|^algorithm$|T::from\(', ['Unknown']))]
    ctx.check('decode_cookie|unknown-algorithm-rejected', len(errs) >= 1, 'unknown algorithms are not rejected', sample=len(errs))
    p = P.body('ntp_proto::keyset::DecodedServerCookie::plaintext')
    ext = p.calls(r'Vec::extend_from_slice$')
    order = [S(p.call_args(c)[1]) for c in sorted(ext, key=lambda c: c.bb)]
    ok = len(order) == 3 and 'to_be_bytes' in order[0] and 'self.s2c' in order[1] and 'self.c2s' in order[2]
    ctx.check('plaintext|layout', ok, 'cookie plaintext layout %s' % order, sample=order)


RULES = [r1, r2, r3]
FLOORS = {'C26-R1': 9, 'C26-R2': 7, 'C26-R3': 10}
