"""C23 — the NTP packet decoder is total."""
from engine.rulelib import *
from engine import panic

EXPLANATION = (
    "PANIC reachability from NtpPacket::deserialize for every CipherProvider implementation in the workspace (NoCipher, dyn "
    "Cipher, Option<&dyn Cipher>, KeySet incl. decode_cookie): each reachable panic-capable construct is discharged locally or "
    "audited; plus a progress rule for the extension-field streamer (its offset strictly increases or jumps to the end on every "
    "item, so iteration terminates)."
)
NOT_DECIDED = ["termination inside external crates (aes-siv)"]
EF = 'ntp_proto::packet::extension_fields'


def r1(ctx):
    panic.property_rule(ctx, 'C23', 'C23-R1')


def r2(ctx):
    ctx.rule('C23-R2', 'ExtensionFieldStreamer::next: every path that yields Some either advances offset by wire_length (>= 4: header included) '
             'or sets offset = buffer.len(); with remaining.len() <= cutoff or offset beyond the buffer it returns None')
    P = ctx.P
    b = P.body('<ntp_proto::packet::extension_fields::ExtensionFieldStreamer as core::iter::traits::iterator::Iterator>::next')
    ws = [(s, written_value(b, s)) for s, f in self_writes(b) if f == 'offset' and s.kind == 'assign']
    vals = sorted(v for _, v in ws)
    ok = len(ws) == 2 and any(v == 'slice::len(self.buffer)' for v in vals) and any(re.match(r'^\(self\.offset \+ RawExtensionField::wire_length\(', v) for v in vals)
    ctx.check('streamer|offset-writes', ok, 'offset updates are %s' % vals, sample=vals)
    somes = [s for s, v in ret_assigns(b) if v.startswith('Option::Some')]
    wb = [s.bb for s, _ in ws]
    for s in somes:
        ctx.check('streamer|%s|progress' % ('ok' if 'Ok' in written_value(b, s) else 'err'), blocks_must_pass_block(b, s.bb, wb),
                  'an item is yielded without advancing the offset (the iterator would not terminate)', s.where())
    ctx.check('streamer|some-sites', len(somes) == 2, 'Some sites: %d' % len(somes), sample=len(somes))
    wl = P.body(EF + '::RawExtensionField::wire_length')
    v = [x for _, x in ret_assigns(wl)]
    ctx.check('wire_length|at-least-header', v == ['extension_fields::next_multiple_of_usize(((2 + 2) + slice::len(self.message_bytes)), 4)'] or
              v == ['extension_fields::next_multiple_of_usize((4 + slice::len(self.message_bytes)), 4)'], 'wire_length is %s' % v, sample=v)


RULES = [r1, r2]
FLOORS = {'C23-R1': 60, 'C23-R2': 4}
