"""C16 — server responses are never larger than the request."""
import re

from engine.rulelib import *
from engine.run import site_desc

EXPLANATION = (
    "TYPE/FLOW/WHO rules: Server::handle's ServerAction<'a> borrows only from `buffer: &'a mut [u8]`; the only Respond "
    "value is cursor.into_inner()[..cursor.position()] of the Cursor built from `buffer`, and serialization writes through "
    "that Cursor; the daemon's only call site passes `&buf[..n]` and `&mut send_buf[..n]` with the same received length n. "
    "Given std::io::Cursor<&mut [u8]> never writes past its slice this decides the property."
)
NOT_DECIDED = []

SRV = 'ntp_proto::server::Server'


def r1(ctx):
    ctx.rule('C16-R1', "Server::handle returns ServerAction<'a> where 'a is the lifetime of `buffer: &'a mut [u8]` and of no other parameter")
    f = ctx.P.fn_item(SRV + '::handle')
    out_regions = set(re.findall(r"'\^(\d+)", f['output']))
    ctx.check('handle|output-one-region', len(out_regions) == 1 and 'ServerAction<' in f['output'], 'return type is %s' % f['output'], sample=f['output'][:160])
    carriers = [i for i, t in enumerate(f['inputs']) if set(re.findall(r"'\^(\d+)", t)) & out_regions]
    ok = len(carriers) == 1 and re.search(r"mut \[u8\]$", f['inputs'][carriers[0]]) is not None
    ctx.check('handle|region-carrier', ok, "the response lifetime is carried by parameters %s" % [f['inputs'][i][-40:] for i in carriers],
              sample=[f['inputs'][i][-60:] for i in carriers])
    a = ctx.P.adt('ntp_proto::server::ServerAction')
    v = {x['name']: [(y['name'], y['ty']) for y in x['fields']] for x in a['variants']}
    ctx.check('ServerAction|shape', v == {'Ignore': [], 'Respond': [('message', "&'a [u8]")]}, 'ServerAction is %s' % v, sample=v)


def r2(ctx):
    ctx.rule('C16-R2', 'the only Respond construction is cursor.into_inner()[..cursor.position()] for cursor = Cursor::new(buffer), and '
             'packet.serialize writes through that same cursor')
    P = ctx.P
    h = P.body(SRV + '::handle')
    rs = some(h.aggregates(r'ServerAction$', 'Respond'), 'Respond construction')
    ctx.check('handle|respond-sites', len(rs) == 1, 'expected one Respond construction', sample=len(rs))
    for s in rs:
        v = S(h.rvalue_term(s.data['rv']))
        ok = v == 'ServerAction::Respond{message: index::index(Cursor::into_inner(Cursor::new(buffer)), RangeTo{end: (Cursor::position(Cursor::new(buffer)) as usize)})}'
        ctx.check('handle|respond-value', ok, 'response message is `%s`' % v, s.where(), sample=v)
    ser = one(h.calls(r'NtpPacket::serialize$'), 'packet.serialize in handle')
    a = [S(x) for x in h.call_args(ser)]
    ctx.check('handle|serialize-into-cursor', a[1] == 'Cursor::new(buffer)', 'serialize writes into `%s`' % a[1], ser.where(), sample=a[1])
    news = h.calls(r'std::io::Cursor::new$|Cursor::new$')
    ctx.check('handle|one-cursor', len(news) == 1 and S(h.call_args(news[0])[0]) == 'buffer', 'cursor construction changed', sample=[S(h.call_args(n)[0]) for n in news])
    # Respond is constructed nowhere else in the workspace (handle_inner only returns Ignore)
    others = []
    for b in P.bodies.values():
        if b.raw['promoted'] is None and b.krate in ('ntp_proto', 'ntpd') and b is not h:
            if b.aggregates(r'server::ServerAction$', 'Respond'):
                others.append(b.npath)
    ctx.check('Respond|constructed-elsewhere', not others, 'Respond constructed in %s' % others, sample=others)


def r3(ctx):
    ctx.rule('C16-R3', 'the daemon calls Server::handle with &buf[..n] and &mut send_buf[..n] for the same local n (the received length); '
             'no other caller in the daemon')
    P = ctx.P
    who = sorted({c[0].npath for c in P.callers_of(SRV + '::handle')})
    ctx.check('who-calls-handle', who == ['ntpd::daemon::server::ServerTask::serve::{closure#0}'], 'callers of Server::handle: %s' % who, sample=who)
    b = P.body('ntpd::daemon::server::ServerTask::serve::{closure#0}')
    s = one(b.calls(r'Server::handle$'), 'Server::handle call in serve')
    args = b.call_args(s)
    req, buf = N(args[3]), N(args[4])
    m1 = re.match(r'^array::index\((\w+), RangeTo\{end: (\w+)\}\)$', req)
    m2 = re.match(r'^array::index_mut\((\w+), RangeTo\{end: (\w+)\}\)$', buf)
    ctx.check('serve|same-length', bool(m1 and m2 and m1.group(2) == m2.group(2) and m1.group(1) != m2.group(1)),
              'request slice `%s` and response buffer `%s` are not cut with the same length' % (req, buf), s.where(), sample=[req, buf])
    e = S(args[3])
    ctx.check('serve|length-is-bytes_read', e.endswith('.bytes_read})'), 'length is not the received byte count: %s' % e[-80:], s.where(), sample=e[-80:])


RULES = [r1, r2, r3]
FLOORS = {'C16-R1': 3, 'C16-R2': 5, 'C16-R3': 3}
