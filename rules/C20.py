"""C20 — rate limiting answers to the client's own request rate."""
import re

from engine.rulelib import *
from engine.run import site_desc

EXPLANATION = (
    "GUARD/FLOW rules on TimestampedCache::is_allowed/index and Server::intended_action: the limiter is consulted only "
    "after both access lists; an empty cache always allows; the only non-constant verdict is "
    "`timestamp.duration_since(old) >= cutoff`, reachable only when the slot held an entry equal to the item; the slot is "
    "overwritten with (item, timestamp) on every non-empty call; slot index = hash(item) % len."
)
NOT_DECIDED = ["hash-slot sharing across long histories (value semantics of the hash)"]

TC = 'ntp_proto::server::TimestampedCache'
SRV = 'ntp_proto::server::Server'


def r1(ctx):
    ctx.rule('C20-R1', 'the rate limiter runs only for clients that passed the deny and allow lists (position in intended_action) with '
             '(client_ip, Instant::now(), config.rate_limiting_cutoff); cache sized by config.rate_limiting_cache_size')
    from rules.C15 import DENY_F, ALLOW_T
    b = ctx.P.body(SRV + '::intended_action')
    s = one(b.calls(r'TimestampedCache::is_allowed$'), 'is_allowed call')
    ctx.guard(b, s, 'deny-miss', DENY_F, key='intended_action|is_allowed|deny-miss')
    ctx.guard(b, s, 'allow-hit', ALLOW_T, key='intended_action|is_allowed|allow-hit')
    a = [S(x) for x in b.call_args(s)]
    ctx.check('intended_action|is_allowed|args', a == ['self.client_cache', 'client_ip', 'Instant::now()', 'self.config.rate_limiting_cutoff'],
              'is_allowed called with %s' % a, s.where(), sample=a)
    who = sorted({c[0].npath for c in ctx.P.callers_of(TC + '::is_allowed')})
    ctx.check('who-calls-is_allowed', who == [SRV + '::intended_action'], 'callers: %s' % who, sample=who)
    n = ctx.P.body(SRV + '::new_internal')
    c = one(n.calls(r'TimestampedCache::new$'), 'TimestampedCache::new')
    ctx.check('new_internal|cache-size', S(n.call_args(c)[0]) == 'config.rate_limiting_cache_size', 'cache size from %s' % S(n.call_args(c)[0]), sample=S(n.call_args(c)[0]))


def r2(ctx):
    ctx.rule('C20-R2', 'is_allowed: true on an empty cache; otherwise the verdict is `timestamp.duration_since(old) >= cutoff` only if the '
             'slot held Some((v, t)) with item == v, else true; the slot is overwritten with Some((item, timestamp)) on every non-empty call')
    P = ctx.P
    b = P.body(TC + '::is_allowed')
    rets = ret_assigns(b)
    consts = [(s, v) for s, v in rets if v in ('0', '1')]
    exprs = [(s, v) for s, v in rets if v not in ('0', '1')]
    ctx.check('is_allowed|no-constant-false', all(v == '1' for _, v in consts), 'is_allowed has a constant-false verdict', sample=[v for _, v in rets])
    ctx.check('is_allowed|verdict-forms', len(exprs) == 1 and len(consts) == 2, 'verdict forms changed: %s' % [v[:60] for _, v in rets], sample=[v[:80] for _, v in rets])
    SAME = r'Option::copied\(Option::and_then\(Option::as_ref\(Vec::index\(self\.elements, TimestampedCache::index\(self, item\)\)\), closure:'
    for s, v in exprs:
        ok = re.match(r'^\(Instant::duration_since\(timestamp, \(' + SAME + r'.*as Some\)\.0\) >= cutoff\)$', v) is not None
        ctx.check('is_allowed|verdict-expr', ok, 'rate verdict is `%s`' % v[:200], s.where(), sample=v[:200])
        ctx.guard(b, s, 'same-occupant', fact_is('^' + SAME, 'Some'), key='is_allowed|verdict-expr|same-occupant')
    empties = [s for s, v in consts if b.must_pass(s.bb, fact_call(r'Vec::is_empty$', True, [r'^self\.elements$']))]
    ctx.check('is_allowed|empty-cache-allows', len(empties) == 1, 'no `return true` for an empty cache', sample=len(empties))
    cl = one(P.closures_of(b), 'closure of is_allowed')
    cv = [v for _, v in ret_assigns(cl)]
    ctx.check('is_allowed|occupant-test', len(cv) == 1 and re.match(r'^bool::then_some\(\(item == \w+\.0\), \w+\.1\)$', cv[0]) is not None,
              'occupant comparison is %s' % cv, sample=cv)
    ws = [(s, t, v) for s, t, v in deref_writes(b) if t.startswith('Vec::index_mut(self.elements')]
    ctx.check('is_allowed|slot-overwrite', len(ws) == 1 and ws[0][1] == 'Vec::index_mut(self.elements, TimestampedCache::index(self, item))'
              and ws[0][2] == 'Option::Some{0: (item, timestamp)}', 'slot write is %s' % [(t, v) for _, t, v in ws], sample=[(t, v) for _, t, v in ws])
    for s, t, v in ws:
        for r, rv in exprs + [c for c in consts if c not in [(e, '1') for e in empties]]:
            pass
        # every non-empty path passes the overwrite before returning
        n, region = region_after(b, fact_call(r'Vec::is_empty$', False, [r'^self\.elements$']))
        rets_in = [r for r, _ in rets if r.bb in region and not b.must_pass(r.bb, fact_call(r'Vec::is_empty$', True))]
        ok = all(blocks_must_pass_block(b, r.bb, [s.bb]) or b.must_pass(r.bb, fact_call(r'Vec::is_empty$', True)) for r in rets_in)
        ctx.check('is_allowed|overwrite-on-every-nonempty-path', ok and n == 1, 'a non-empty call can return without refreshing the slot')
        # the read of the old occupant precedes the overwrite
        rd = one(b.calls(r'Option::and_then$'), 'and_then read')
        ctx.check('is_allowed|read-before-write', b.can_reach(rd.bb, s.bb) and not b.can_reach(s.bb, rd.bb), 'old occupant is read after the overwrite')
    ix = [v for _, v in ret_assigns(P.body(TC + '::index'))]
    ctx.check('index|shape', ix == ['((BuildHasher::hash_one(self.randomstate, item) as usize) % Vec::len(self.elements))'], 'index is %s' % ix, sample=ix)
    ixs = b.calls(r'TimestampedCache::index$')
    for s in ixs:
        ctx.guard(b, s, 'non-empty', fact_call(r'Vec::is_empty$', False, [r'^self\.elements$']), key='is_allowed|index-call|non-empty')


RULES = [r1, r2]
FLOORS = {'C20-R1': 5, 'C20-R2': 10}
