"""C37 — only registered, usable sources influence the clock (structural part)."""
import re
from engine.rulelib import *
from engine.run import site_desc

EXPLANATION = (
    "TYPE/WHO/GUARD rules: measurements, usability changes and the drop notification of a source all travel through the same "
    "tokio mpsc::UnboundedSender (FIFO per sender) and are consumed only by TimeSyncControllerWrapper::run; the inner "
    "controller's source_message / source_update / remove_source have no other caller; KalmanClockController::source_message "
    "calls update_clock only for an id present in `sources`, source_update only touches a registered entry, remove_source "
    "removes the entry; both source wrappers send Dropped when dropped; update_clock uses only entries whose usable flag is set "
    "(C03-R1)."
)
NOT_DECIDED = ["the interleaving of source tasks under the tokio scheduler (ordering across different senders)"]
ALG = 'ntp_proto::algorithm'
K = 'ntp_proto::algorithm::kalman::KalmanClockController'
KI = '<ntp_proto::algorithm::kalman::KalmanClockController as ntp_proto::algorithm::InternalTimeSyncController>'


def r1(ctx):
    ctx.rule('C37-R1', 'one FIFO channel per source: SourceMessage, UsabilityChange and Dropped are sent on the wrapper\'s single '
             'messages_for_system UnboundedSender; the inner source_message/source_update/remove_source are called only from '
             'TimeSyncControllerWrapper::run')
    P = ctx.P
    for w in ('OneWaySourceControllerWrapper', 'TwoWaySourceControllerWrapper'):
        a = P.adt(ALG + '::' + w)
        f = {x['name']: x['ty'] for x in a['variants'][0]['fields']}
        ctx.check('%s|channel-type' % w, f.get('messages_for_system', '').startswith('tokio::sync::mpsc::unbounded::UnboundedSender<(ntp_proto::ClockId, ntp_proto::algorithm::WrapperMessage<'),
                  'channel type %s' % f.get('messages_for_system'), sample=f.get('messages_for_system', '')[:100])
        senders = [k for k, v in f.items() if 'Sender<' in v]
        ctx.check('%s|single-channel' % w, senders == ['messages_for_system'], 'sender fields %s' % senders, sample=senders)
        kinds = set()
        for b in P.bodies_matching(r'^<ntp_proto::algorithm::%s as ' % w):
            for s in b.calls(r'UnboundedSender::send$'):
                ctx.check('%s|%s|sends-on-own-channel' % (w, b.npath.split('::')[-1]), S(b.call_args(s)[0]) == 'self.messages_for_system', 'send on %s' % S(b.call_args(s)[0]), s.where())
                m = re.search(r'WrapperMessage::(\w+)', S(b.call_args(s)[1]))
                kinds.add((b.npath.split('>::')[-1], m.group(1) if m else '?'))
        exp = {('handle_measurement', 'SourceMessage'), ('set_usable', 'UsabilityChange'), ('drop', 'Dropped')}
        ctx.check('%s|message-kinds' % w, kinds == exp, 'messages sent: %s' % sorted(kinds), sample=sorted(kinds))
    run = ALG + '::TimeSyncControllerWrapper'
    for fn in ('source_message', 'source_update', 'remove_source'):
        who = sorted({c[0].npath for c in P.callers_of(ALG + '::InternalTimeSyncController::' + fn)})
        ctx.check('who-calls-%s' % fn, len(who) >= 1 and all(w.startswith('<' + run + ' as ') and '::run' in w for w in who), 'callers of %s: %s' % (fn, who), sample=who)
    rb = [b for b in P.bodies_matching(r'TimeSyncControllerWrapper as ntp_proto::algorithm::TimeSyncController>::run::\{closure#0\}$')]
    b = one(rb, 'run coroutine')
    table = {}
    for fn, var in (('source_message', 'SourceMessage'), ('source_update', 'UsabilityChange'), ('remove_source', 'Dropped')):
        for s in b.calls(r'InternalTimeSyncController::%s$' % fn):
            ok = b.must_pass(s.bb, fact_is(r'.', [var]))
            table[fn] = ok
            ctx.check('run|%s|dispatched-for-%s' % (fn, var), ok, '%s is not dispatched from the %s message' % (fn, var), s.where())
            got = S(b.call_args(s)[1])
            ctx.check('run|%s|id-from-message' % fn, re.search(r'poll_fn::poll_fn\(.* as Ready\)\.0 as _0\)\.0 as Some\)\.0\.0$', got, re.S) is not None,
                      'the id handed to %s is not the id that arrived with the message: %s' % (fn, got[-100:]), s.where(), sample=got[-60:])
    ctx.check('run|dispatch-table', len(table) == 3, 'dispatch sites %s' % table, sample=table)


def r2(ctx):
    ctx.rule('C37-R2', 'KalmanClockController: source_message updates and calls update_clock only if sources.get_mut(&id) is Some (else default update, '
             'no steering); source_update writes the usable flag only of a registered entry; remove_source removes the entry; add_*_source '
             'registers (None, false)')
    P = ctx.P
    b = P.body(KI + '::source_message')
    uc = one(b.calls(r'KalmanClockController::update_clock$'), 'update_clock in source_message')
    ctx.guard(b, uc, 'registered', fact_is(r'^HashMap::get_mut\(self\.sources, id\)$', 'Some'), key='source_message|update_clock|registered')
    who = sorted({c[0].npath for c in P.callers_of(K + '::update_clock')})
    ctx.check('who-calls-update_clock', who == [KI + '::source_message'], 'callers of update_clock: %s' % who, sample=who)
    n, region = region_after(b, fact_is(r'^HashMap::get_mut\(self\.sources, id\)$', 'None'))
    ctx.check('source_message|unknown-id-no-effect', n == 1 and uc.bb not in region and not [s for s, f in self_writes(b) if s.bb in region], 'data for an unregistered id has effects', sample=n)
    su = P.body(KI + '::source_update')
    ws = deref_writes(su)
    ctx.check('source_update|writes-flag-of-entry', [(t, v) for _, t, v in ws] == [('(HashMap::get_mut(self.sources, id) as Some).0.1', 'usable')], 'source_update writes %s' % [(t, v) for _, t, v in ws],
              sample=[(t, v) for _, t, v in ws])
    for s, t, v in ws:
        ctx.guard(su, s, 'registered', fact_is(r'^HashMap::get_mut\(self\.sources, id\)$', 'Some'), key='source_update|write|registered')
    ins = su.calls(r'HashMap::insert$|Entry|or_insert')
    ctx.check('source_update|never-registers', not ins, 'source_update can (re)create an entry for a removed source', sample=len(ins))
    rm = P.body(KI + '::remove_source')
    r = one(rm.calls(r'HashMap::remove$'), 'remove in remove_source')
    ctx.check('remove_source|removes-entry', [S(x) for x in rm.call_args(r)] == ['self.sources', 'id'], 'remove args %s' % [S(x) for x in rm.call_args(r)], r.where(), sample=[S(x) for x in rm.call_args(r)])
    for fn in ('add_source', 'add_one_way_source'):
        ab = P.body(KI + '::' + fn)
        i = one(ab.calls(r'HashMap::insert$'), 'insert in ' + fn)
        a = [S(x) for x in ab.call_args(i)]
        ctx.check('%s|registers-unusable' % fn, a[1] == 'id' and a[2] == '(Option::None{}, 0)', '%s registers %s' % (fn, a[1:]), i.where(), sample=a[1:])
    allins = sorted({bd.npath for bd in P.bodies.values() if bd.raw['promoted'] is None and bd.npath.startswith(KI) and bd.calls(r'HashMap::insert$')})
    ctx.check('who-inserts-sources', allins == [KI + '::add_one_way_source', KI + '::add_source'], 'inserters: %s' % allins, sample=allins)


def r3(ctx):
    ctx.rule('C37-R3', 'estimates are computed only from entries whose usable flag is set (same rule as C03-R1)')
    from rules.C03 import r1 as c03r1
    saved = ctx.cur_rule
    c03r1(ctx)
    ctx.cur_rule = saved


RULES = [r1, r2, r3]
FLOORS = {'C37-R1': 16, 'C37-R2': 10}
