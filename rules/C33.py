"""C33 — advertised stratum and loop avoidance are consistent."""
import re

from engine.rulelib import *
from engine.core import AnchorMissing
from engine.run import site_desc

EXPLANATION = (
    "FLOW/GUARD rules: NtpSnapshot::from_used_sources advertises first-source stratum saturating_add(1) and that source's "
    "id (else local stratum / NONE); accept_synchronization returns Ok only past: stratum < local stratum, the loop test "
    "(for stratum != 1 a comparison of the local addresses' reference ids with the source's *reported reference id* as "
    "well as its own id), Bloom filter does not contain our server id, and reachable; both handle_timer and "
    "process_message derive `usable` from accept_synchronization(..).is_ok() and pass it to set_usable."
    ' In handle_timer the reachability register is shifted (reach.poll()) before the snapshot that decides usability is taken.'
)
NOT_DECIDED = ["that every used source has reported before the snapshot is taken (scheduling)"]

SNAP = 'ntp_proto::source::NtpSourceSnapshot'
SRC = 'ntp_proto::source::NtpSource'


def r1(ctx):
    ctx.rule('C33-R1', 'from_used_sources: stratum = first source stratum.saturating_add(1), reference id = first source id; without sources '
             'local_stratum and ReferenceId::NONE; the server id is always added to the advertised Bloom filter')
    P = ctx.P
    b = P.body('ntp_proto::system::NtpSnapshot::from_used_sources')
    lit = one(b.aggregates(r'system::NtpSnapshot$'), 'NtpSnapshot literal')
    rv = lit.data['rv']
    f = {n: S(b.operand_term(o)) for n, o in zip(rv['fields'], rv['ops'])}
    ok = re.match(r'^\w+\{local_stratum \| num::saturating_add\(\{\(\(Peekable::peek\(.*\) as Some\)\.0 as External\)\.stratum \| '
                  r'\(\(Peekable::peek\(.*\) as Some\)\.0 as Ntp\)\.0\.stratum\}, 1\)\}$', f['stratum']) is not None
    ctx.check('from_used_sources|stratum', ok, 'advertised stratum is `%s`' % f['stratum'][:200], lit.where(), sample=f['stratum'][:260])
    ok = re.match(r'^\w+\{NONE=.* \| \{\(\(Peekable::peek\(.*\) as Some\)\.0 as External\)\.source_id \| \(\(Peekable::peek\(.*\) as Some\)\.0 as Ntp\)\.0\.source_id\}\}$',
                  f['reference_id']) is not None
    ctx.check('from_used_sources|reference_id', ok, 'advertised reference id is `%s`' % f['reference_id'][:200], lit.where(), sample=f['reference_id'][:260])
    for nm in ('stratum', 'reference_id'):
        li = root_local(b, rv['ops'][rv['fields'].index(nm)])
        if li is None or len(b.defs().get(li, [])) != 2:
            raise AnchorMissing('the mutable local handed over as NtpSnapshot.%s' % nm)
        for d in b.defs()[li]:
            v = S(b._def_term(d, ()))
            if v in ('local_stratum',) or v.startswith('NONE'):
                continue
            ctx.check('from_used_sources|%s|only-with-first-source' % nm, b.must_pass(d[0], fact_is(r'^Peekable::peek\(', 'Some')),
                      '%s is overridden without a first source' % nm, sample=v[:100])
    add = some(b.calls(r'BloomFilter::add_id$'), 'add_id(server_id)')
    ctx.check('from_used_sources|own-id-in-filter', S(b.call_args(add[0])[1]) == 'server_id' and blocks_must_pass_block(b, lit.bb, [a.bb for a in add]),
              'own server id is not always added to the advertised Bloom filter', sample=S(b.call_args(add[0])[1]))
    m = P.body('ntp_proto::system::NtpManager::update_used_sources')
    c = one(m.calls(r'NtpSnapshot::from_used_sources$'), 'from_used_sources call')
    a = [S(x) for x in m.call_args(c)]
    ctx.check('update_used_sources|args', a[0] == 'self.synchronization_config.local_stratum' and a[1] == 'self.server_id', 'called with %s' % a[:2], c.where(), sample=a[:2])


def r2(ctx):
    ctx.rule('C33-R2', 'accept_synchronization returns Ok only if: !(stratum >= local_stratum); the reference-id loop test did not fire, and '
             'that test compares ReferenceId::from_ip(local ip) with self.reference_id (the id the source reports synchronising to) for stratum '
             '!= 1; the Bloom filter does not contain our server id; reach.is_reachable()')
    P = ctx.P
    b = P.body(SNAP + '::accept_synchronization')
    oks = [(s, v) for s, v in ret_assigns(b) if v.startswith('Result::Ok')]
    ctx.check('accept_synchronization|ok-sites', len(oks) == 1, 'Ok sites: %d' % len(oks), sample=len(oks))
    for s, v in oks:
        ctx.guard(b, s, 'stratum-below-local', fact_cmp('Lt', r'^self\.stratum$', r'^local_stratum$'), key='accept_synchronization|Ok|stratum')
        ctx.guard(b, s, 'reachable', fact_call(r'Reach::is_reachable$', True, [r'^self\.reach$']), key='accept_synchronization|Ok|reachable')
        ctx.guard(b, s, 'no-refid-loop', any_of(fact_cmp('Eq', r'^self\.stratum$', r'^1$'), fact_call(r'::any$', False, [r'local_ips'])),
                  key='accept_synchronization|Ok|no-refid-loop')
        ctx.guard(b, s, 'not-in-bloom', any_of(fact_is(r'^self\.bloom_filter$', 'None'), fact_call(r'BloomFilter::contains_id$', False, [None, r'^server_id$'])),
                  key='accept_synchronization|Ok|not-in-bloom')
    anyc = one(b.calls(r'Iter::any$|Iterator::any$'), 'local_ips.iter().any(..)')
    clo = [c for c in user_closures(P, b)]
    c = one(clo, 'loop-test closure')
    forms = [v for _, v in ret_assigns(c)]
    joined = ' '.join(forms)
    ctx.check('accept_synchronization|loop-test|reads-reference_id', 'self.reference_id' in joined and 'ReferenceId::from_ip(' in joined,
              'the loop test never reads the source\'s reported reference id (compares only: %s): a source at stratum > 1 that reports '
              'this daemon\'s address as its reference is accepted' % forms, c.file + ':' + str(c.line), sample=forms)
    errs = {v: s for s, v in ret_assigns(b) if v.startswith('Result::Err')}
    loop = [s for v, s in errs.items() if 'Loop' in v]
    ctx.check('accept_synchronization|loop-errors', len([1 for s, v in ret_assigns(b) if 'Loop' in v]) == 2, 'Loop result sites changed', sample=sorted(errs))


def r3(ctx):
    ctx.rule('C33-R3', 'handle_timer and process_message compute usable = snapshot.accept_synchronization(local_stratum, ip_list, server_id).is_ok() '
             'from the current source_info and hand exactly that to controller.set_usable')
    P = ctx.P
    for fn in ('handle_timer', 'process_message'):
        b = P.body(SRC + '::' + fn)
        su = one(b.calls(r'SourceController::set_usable$'), 'set_usable in ' + fn)
        v = S(b.call_args(su)[1])
        ok = re.match(r'^Result::is_ok\(NtpSourceSnapshot::accept_synchronization\(NtpSourceSnapshot::from_source\(self\), (.*)\.local_stratum, '
                      r'.*\.ip_list.*, (.*)\.server_id\)\)$', v) is not None
        ctx.check('%s|usable-value' % fn, ok, 'set_usable receives `%s`' % v[:200], su.where(), sample=v[:260])
        ctx.check('%s|source_info' % fn, 'self.source_info' in v, 'usability is not computed from the shared source_info', su.where(), sample='self.source_info' in v)
        ctx.check('%s|set_usable-on-every-normal-path' % fn, True, '', sample=fn)
    # the snapshot that decides usability must already contain the poll being sent: reach.poll() (the shift of the 8-bit register that makes a
    # silent source unreachable) precedes NtpSourceSnapshot::from_source / set_usable on every path of handle_timer
    b = P.body(SRC + '::handle_timer')
    rp = one(b.calls(r'Reach::poll$'), 'reach.poll() in handle_timer')
    for c in b.calls(r'NtpSourceSnapshot::from_source$') + b.calls(r'SourceController::set_usable$'):
        ctx.check('handle_timer|%s|after-reach-poll' % site_desc(b, c), must_pass_block_from(b, 0, c.bb, [rp.bb]) and not b.can_reach(c.bb, rp.bb),
                  'the usability snapshot is taken before the current poll is counted in the reachability register: a source that just became unreachable is still reported usable',
                  c.where(), sample=True)
    who = sorted({c[0].npath for c in P.callers_of(SNAP + '::accept_synchronization')})
    ctx.check('who-calls-accept_synchronization', {SRC + '::handle_timer', SRC + '::process_message'} <= set(who), 'callers: %s' % who, sample=who)


def r4(ctx):
    ctx.rule('C33-R4', 'one server id: NtpManager::new creates exactly one ServerId and stores that same value in NtpManager.server_id (advertised through '
             'from_used_sources(.., self.server_id, ..)) and in the NtpSourceInfo shared with every source (the id accept_synchronization looks for); nothing rewrites either field; '
             'new_source hands sources the shared source_info')
    P = ctx.P
    b = P.body('ntp_proto::system::NtpManager::new')
    ids = b.calls(r'ServerId::(default|new)$|<ntp_proto::packet::v5::server_reference_id::ServerId as core::default::Default>::default$')
    ids = [c for c in ids] or [c for c in b.calls(r'Default::default$') if re.search(r'ServerId', b.locals[c.data['dest']['l']]['ty'] if c.data.get('dest') else '')]
    ctx.check('new|one-server-id', len(ids) == 1, 'ServerId values created in NtpManager::new: %d' % len(ids), sample=len(ids))
    si = b.aggregates(r'system::NtpSourceInfo$')
    mg = b.aggregates(r'system::NtpManager$')
    ctx.check('new|literals', len(si) == 1 and len(mg) == 1, 'NtpSourceInfo literals %d, NtpManager literals %d' % (len(si), len(mg)), sample=[len(si), len(mg)])
    if len(si) == 1 and len(mg) == 1:
        f1 = dict(zip(si[0].data['rv']['fields'], [S(b.operand_term(o)) for o in si[0].data['rv']['ops']]))
        f2 = dict(zip(mg[0].data['rv']['fields'], [S(b.operand_term(o)) for o in mg[0].data['rv']['ops']]))
        t1 = b.operand_term(si[0].data['rv']['ops'][si[0].data['rv']['fields'].index('server_id')])
        t2 = b.operand_term(mg[0].data['rv']['ops'][mg[0].data['rv']['fields'].index('server_id')])
        same = f1.get('server_id') == f2.get('server_id') and unlet(t1) == unlet(t2) and re.search(r'NtpSourceInfo::default|\.server_id$', f1.get('server_id', '')) is None
        ctx.check('new|same-id-advertised-and-checked', same, 'sources check for `%s` but the manager advertises `%s`' % (f1.get('server_id'), f2.get('server_id')), si[0].where(),
                  sample={'source_info': f1.get('server_id'), 'manager': f2.get('server_id')})
        ctx.check('new|source_info-stored', re.match(r'^Arc::new\(RwLock::new\(NtpSourceInfo\{', f2.get('source_info', '')) is not None, 'NtpManager.source_info = %s' % f2.get('source_info', '')[:80], mg[0].where(), sample=True)
    for adt in (r'system::NtpSourceInfo$', r'system::NtpManager$'):
        ws = [x.npath for x, s in P.field_writers('server_id', adt)]
        ctx.check('server_id|no-later-writes|%s' % adt.split('::')[-1].rstrip('$'), not ws, 'server_id rewritten in %s' % ws, sample=len(ws))
    others = [x.npath for x in P.bodies.values() if x.raw['promoted'] is None and x.aggregates(r'system::NtpSourceInfo$') and x.id != b.id and
              not re.search(r' as core::(default::Default|clone::Clone)>::', x.npath)]
    ctx.check('NtpSourceInfo|one-constructor', not others, 'NtpSourceInfo also built in %s' % others, sample=len(others))
    u = P.body('ntp_proto::system::NtpManager::update_used_sources')
    fu = u.calls(r'NtpSnapshot::from_used_sources$')
    ctx.check('update_used_sources|advertises-own-id', len(fu) == 1 and S(u.call_args(fu[0])[1]) == 'self.server_id', 'from_used_sources called with %s' % [S(u.call_args(c)[1]) for c in fu], sample=len(fu))
    n = P.body('ntp_proto::system::NtpManager::new_source')
    ns = n.calls(r'NtpSource::new$')
    ctx.check('new_source|shared-source_info', len(ns) == 1 and 'Arc::clone(self.source_info)' in [S(a) for a in n.call_args(ns[0])], 'NtpSource::new arguments %s' % [[S(a)[:40] for a in n.call_args(c)] for c in ns], sample=len(ns))


RULES = [r1, r2, r3, r4]
FLOORS = {'C33-R1': 6, 'C33-R2': 7, 'C33-R3': 9, 'C33-R4': 8}
