"""C07 — NTS sources ignore everything that is not authenticated."""
import re

from engine.rulelib import *
from engine.run import site_desc

EXPLANATION = (
    "GUARD/PRED/FLOW/WHO rules: every state-changing site of NtpSource::handle_incoming is reachable only "
    "past valid_server_response(id, nts.is_some()); the acceptance predicate admits unauthenticated unique "
    "identifiers under NTS only for NTS-NAK packets, and every effect site is outside that weakly accepted "
    "class (dominated by !is_kiss_ntsn, or only active without NTS); cookies are stored only from the "
    "encrypted field list, which is extended only after a successful decrypt."
    ' Replay: the pending identifier is consumed before the measurement is handed over (C08-R2).'
)
NOT_DECIDED = ["cryptographic unforgeability of AES-SIV (assumed)"]

SRC = 'ntp_proto::source::NtpSource'
PKT = 'ntp_proto::packet::NtpPacket'
EFD = 'ntp_proto::packet::extension_fields::ExtensionFieldData'

VALID = fact_call(r'NtpPacket::valid_server_response$', True, [None, None, r'^Option::is_some\(self\.nts\)$'])
NOT_NTSN = fact_call(r'NtpPacket::is_kiss_ntsn$', False)
NO_NTS = any_of(fact_is(r'^self\.nts$', 'None'),
                fact_call(r'Option::is_some$', False, [r'^self\.nts$']))
UPGRADE_STATE = fact_is(r'^self\.protocol_version$', ['V4UpgradingToV5', 'UpgradedToV5'])


def effect_sites(P, b):
    out = []
    for s, f in self_writes(b):
        out.append((s, 'write:' + f))
    for s in b.aggregates(r'NtpSourceAction$'):
        out.append((s, 'action:' + s.data['rv']['variant']))
    for s in b.calls(r'NtpSource::process_message$'):
        out.append((s, 'call:process_message'))
    for s in b.calls(r'(handle_measurement|set_usable|CookieStash::store)$'):
        out.append((s, 'call:' + short_name(b.callee(s)['def'])))
    return out


def r1(ctx):
    ctx.rule('C07-R1', 'every effect site in handle_incoming (write through self, action construction, '
             'process_message) is reachable only past valid_server_response(identifier, self.nts.is_some()) == true')
    b = ctx.P.body(SRC + '::handle_incoming')
    effs = effect_sites(ctx.P, b)
    for s, what in effs:
        ctx.guard(b, s, 'valid_server_response', VALID,
                  key='handle_incoming|%s|%s|valid' % (what, site_desc(b, s)),
                  msg='effect `%s` reachable without a successful valid_server_response(.., nts.is_some())' % what)
    ctx.check('handle_incoming|effect-kinds', {'call:process_message', 'action:Demobilize'} <= {w for _, w in effs},
              'expected effect sites (process_message, Demobilize) not found', sample=sorted({w for _, w in effs}))


def weak_disjunct(ctx, b):
    """Sites assigning the uid verdict from `untrusted.is_some()`; returns (sites, dest local)."""
    sites = []
    for s in b.assigns():
        if s.kind == 'assign':
            v = S(b.rvalue_term(s.data['rv']))
        else:
            v = S(b.call_term(s.data))
        if re.search(r'^Option::is_some\(packet::check_uid_extensionfield\(.*efdata\.untrusted', v):
            sites.append(s)
    return sites


def r2(ctx):
    ctx.rule('C07-R2', 'valid_server_response: a uid verdict based on *untrusted* fields is reachable only with '
             '!nts_enabled or is_kiss_ntsn(); a constant-true verdict only with an authenticated or encrypted uid '
             'match; contradicting authenticated/encrypted uids reject')
    b = ctx.P.body(PKT + '::valid_server_response')
    ws = some(weak_disjunct(ctx, b), 'untrusted uid verdict in valid_server_response')
    for s in ws:
        ok = b.must_pass(s.bb, any_of(lambda f: f.kind == 'bool' and not f.pol and tstr(f.term) == 'nts_enabled',
                                      fact_call(r'NtpPacket::is_kiss_ntsn$', True)))
        ctx.check('valid_server_response|untrusted-verdict|gate', ok,
                  'untrusted unique identifiers are accepted under NTS for packets that are not NTS-NAKs',
                  s.where(), sample=b.guard_strings(s.bb))
        ok2 = b.must_pass(s.bb, fact_is(r'check_uid_extensionfield\(.*efdata\.authenticated', 'None')) and \
            b.must_pass(s.bb, fact_is(r'check_uid_extensionfield\(.*efdata\.encrypted', 'None'))
        ctx.check('valid_server_response|untrusted-verdict|only-without-auth-or-encr', ok2,
                  'untrusted verdict consulted although authenticated/encrypted uid exists', s.where())
    # destination local of the verdict and its other definitions
    s0 = ws[0]
    dl = (s0.data['place'] if s0.kind == 'assign' else s0.data['dest'])['l']
    n_true = 0
    for d in b.defs()[dl]:
        j, i, kind, payload = d
        if kind != 'assign':
            continue
        v = S(b.rvalue_term(payload))
        if v == '1':
            n_true += 1
            ok = b.must_pass(j, any_of(fact_is(r'check_uid_extensionfield\(.*efdata\.authenticated', 'Some'),
                                       fact_is(r'check_uid_extensionfield\(.*efdata\.encrypted', 'Some')))
            ctx.check('valid_server_response|true-verdict|needs-auth-or-encr', ok,
                      'uid verdict `true` reachable without an authenticated or encrypted uid field',
                      '%s:%s' % (b.file, payload and b.blocks[j]['stmts'][i]['line']))
    ctx.check('valid_server_response|true-verdict|exists', n_true >= 1, 'structure of uid_ok changed (no constant-true arm)',
              sample=n_true)
    # contradiction: auth == Some(false) and encr == Some(false) lead to verdict false
    for lst in ('authenticated', 'encrypted'):
        pred = fact_cmp('Ne', r'check_uid_extensionfield\(.*efdata\.%s' % lst, r'^Option::Some\{0: 0\}$')
        for s in ws:
            ctx.check('valid_server_response|untrusted-verdict|%s-not-contradicting' % lst, b.must_pass(s.bb, pred),
                      'a contradicting %s uid no longer rejects the packet' % lst, s.where())


def r3(ctx):
    ctx.rule('C07-R3', 'weak-acceptance containment: since NTS-NAK packets are accepted on an untrusted uid, every '
             'effect site of handle_incoming is dominated by !is_kiss_ntsn(), or is active only without NTS, or is an '
             'upgrade-state transition (states an NTS source never has, see C12-R4)')
    P = ctx.P
    v = P.body(PKT + '::valid_server_response')
    ws = weak_disjunct(ctx, v)
    weak_exists = any(v.must_pass(s.bb, lambda f: True) and not v.must_pass(
        s.bb, lambda f: f.kind == 'bool' and not f.pol and tstr(f.term) == 'nts_enabled') for s in ws)
    ctx.check('valid_server_response|weak-class-exists', True, '', sample={'weak_acceptance_under_nts': weak_exists})
    if not weak_exists:
        ctx.note('no weak acceptance class under NTS: containment rule vacuous by construction')
        return
    b = P.body(SRC + '::handle_incoming')
    for s, what in effect_sites(P, b):
        ok = b.must_pass(s.bb, NOT_NTSN) or b.must_pass(s.bb, NO_NTS)
        exempt = what == 'write:protocol_version' and b.must_pass(s.bb, UPGRADE_STATE)
        ctx.check('handle_incoming|%s|%s|contained' % (what, site_desc(b, s)), ok or exempt,
                  'effect `%s` can be triggered under NTS by an unauthenticated packet that sets the NTS-NAK '
                  'marker (accepted on an untrusted unique identifier): not dominated by !is_kiss_ntsn()' % what,
                  s.where(), sample={'guards': b.guard_strings(s.bb)[-6:], 'exempt_upgrade_state': exempt})
    # the exemption relies on NTS sources being created with V4 or V5 only
    ke = P.bodies_matching(r'^ntp_proto::nts::KeyExchangeClient::exchange_keys')
    some(ke, 'KeyExchangeClient::exchange_keys')
    vals = set()
    for kb in ke:
        for s in kb.aggregates(r'ProtocolVersion$'):
            vals.add(s.data['rv']['variant'])
        for s in kb.assigns():
            if s.kind == 'assign':
                t = S(kb.rvalue_term(s.data['rv']))
                m = re.match(r'^ProtocolVersion::(\w+)', t)
                if m:
                    vals.add(m.group(1))
    ctx.check('exchange_keys|nts-protocol-versions', vals and vals <= {'V4', 'V5'},
              'key exchange can yield a protocol version other than V4/V5 for an NTS source: %s' % sorted(vals),
              sample=sorted(vals))


def r4(ctx):
    ctx.rule('C07-R4', 'cookies.store receives only NtpPacket::new_cookies() items; new_cookies reads only '
             'efdata.encrypted; ExtensionFieldData::deserialize extends `encrypted` and promotes untrusted->authenticated '
             'only on the Ok edge of decrypt')
    P = ctx.P
    pm = P.body(SRC + '::process_message')
    stores = some(pm.calls(r'CookieStash::store$'), 'cookies.store call in process_message')
    for s in stores:
        a = S(pm.call_args(s)[1])
        ctx.check('process_message|%s|source' % site_desc(pm, s), re.search(r'NtpPacket::new_cookies\(message\)', a) is not None,
                  'stored cookie does not come from message.new_cookies()', s.where(), sample=a)
        ctx.guard(pm, s, 'nts-some', any_of(fact_is(r'Option::as_mut\(self\.nts\)|^self\.nts$', 'Some')))
    who = sorted({c[0].npath for c in P.callers_of('ntp_proto::cookiestash::CookieStash::store')})
    allowed = {SRC + '::process_message', 'ntp_proto::nts::KeyExchangeClient::exchange_keys',
               'ntp_proto::nts::KeyExchangeClient::exchange_keys::{closure#0}'}
    ctx.check('who-calls-CookieStash::store', set(who) <= allowed, 'unexpected caller of CookieStash::store: %s' % who, sample=who)
    nc = P.body(PKT + '::new_cookies')
    reads = set()
    for blk in nc.blocks:
        for st in blk['stmts']:
            if st['k'] == 'assign':
                t = S(nc.rvalue_term(st['rv']))
                for m in re.finditer(r'efdata\.(\w+)', t):
                    reads.add(m.group(1))
        if blk['term']['k'] == 'call':
            for a in blk['term']['args']:
                for m in re.finditer(r'efdata\.(\w+)', S(nc.operand_term(a))):
                    reads.add(m.group(1))
    ctx.check('new_cookies|reads', reads == {'encrypted'}, 'new_cookies reads %s, expected only efdata.encrypted' % sorted(reads),
              sample=sorted(reads))
    cl = P.closures_of(nc)
    ctx.check('new_cookies|closure-count', len(cl) == 1, 'new_cookies closure structure changed', sample=[c.path for c in cl])
    for c in cl:
        somes = [s for s in c.aggregates(r'core::option::Option$', 'Some')]
        for s in somes:
            ctx.guard(c, s, 'field-is-NtsCookie', fact_is(r'.', 'NtsCookie'))
    d = P.body(EFD + '::deserialize')
    ext = some(d.calls(r'Extend::extend$|Vec::extend'), 'encrypted.extend in deserialize')
    ext = [s for s in ext if re.search(r'\.encrypted$', S(d.call_args(s)[0]))]
    app = [s for s in d.calls(r'Vec::append$') if re.search(r'\.authenticated$', S(d.call_args(s)[0]))]
    ctx.check('deserialize|extend/append-sites', len(ext) == 1 and len(app) == 1,
              'expected one encrypted.extend and one authenticated.append', sample=[len(ext), len(app)])
    dec_ok = fact_is(r'RawEncryptedField::decrypt\(', 'Ok')
    for s in ext + app:
        ctx.guard(d, s, 'decrypt-ok', dec_ok)
    for s in ext:
        a = S(d.call_args(s)[1])
        ctx.check('deserialize|extend-source', re.search(r'RawEncryptedField::decrypt\(', a) is not None,
                  'encrypted list extended with something other than the decrypt output', s.where(), sample=a)
    # no other writer of efdata.encrypted / authenticated in this function
    for fld in ('encrypted', 'authenticated'):
        ws = [s for s in d.field_writes(fld, r'ExtensionFieldData$')]
        ok = all(d.must_pass(s.bb, dec_ok) for s in ws)
        ctx.check('deserialize|%s-writers-after-decrypt' % fld, ok and len(ws) >= 1,
                  'efdata.%s is written on a path without successful decrypt' % fld, sample=len(ws))


def r5(ctx):
    ctx.rule('C07-R5', 'with NTS the Bloom-filter response is taken from authenticated extension fields only')
    pm = ctx.P.body(SRC + '::process_message')
    au = some(pm.calls(r'NtpPacket::authenticated_extension_fields$'), 'authenticated_extension_fields call')
    un = some(pm.calls(r'NtpPacket::untrusted_extension_fields$'), 'untrusted_extension_fields call')
    for s in un:
        ctx.guard(pm, s, 'nts-none', NO_NTS)
    for s in au:
        ctx.guard(pm, s, 'nts-some', any_of(fact_call(r'Option::is_some$', True, [r'^self\.nts$']), fact_is(r'^self\.nts$', 'Some')))
    hr = some(pm.calls(r'RemoteBloomFilter::handle_response$'), 'bloom_filter.handle_response call')
    for s in hr:
        a = S(pm.call_args(s)[2])
        ctx.check('process_message|bloom-source', re.search(r'authenticated_extension_fields', a) and re.search(r'untrusted_extension_fields', a),
                  'bloom response no longer selected between authenticated/untrusted lists', s.where(), sample=a[:300])


def r6(ctx):
    ctx.rule('C07-R6', 'the identifier check of valid_server_response is armed for every NTS request: both NTS request builders (NTPv4 and NTPv5) put a fresh random '
             'unique identifier into the authenticated fields and return RequestIdentifier{uid: Some(that same identifier)}; handle_timer stores the returned identifier')
    P = ctx.P
    for nm in ('nts_poll_message', 'nts_poll_message_v5'):
        b = P.body('ntp_proto::packet::NtpPacket::' + nm)
        uid = b.aggregates(r'extension_fields::ExtensionField$', 'UniqueIdentifier')
        rid = b.aggregates(r'RequestIdentifier$')
        ctx.check('%s|sites' % nm, len(uid) == 1 and len(rid) == 1, '%s: UniqueIdentifier fields %d, RequestIdentifier literals %d (the identifier of the header builder is returned unchanged?)' % (nm, len(uid), len(rid)),
                  sample=[len(uid), len(rid)])
        if len(uid) != 1 or len(rid) != 1:
            continue
        u = b.operand_term(uid[0].data['rv']['ops'][0])
        f = dict(zip(rid[0].data['rv']['fields'], rid[0].data['rv']['ops']))
        r = b.operand_term(f['uid'])
        rs = S(r)
        m = re.match(r'^Option::Some\{0: (.*)\}$', rs, re.S)
        ctx.check('%s|uid-is-some' % nm, m is not None, 'returned uid is %s' % rs[:120], rid[0].where(), sample=rs[:80])
        if m:
            ident = m.group(1)
            ctx.check('%s|uid-random' % nm, re.search(r'Rng::r#gen\(|rand::random|RngCore::fill', ident) is not None, 'identifier is %s' % ident[:120], rid[0].where(), sample=ident[:80])
            ctx.check('%s|same-identifier-sent' % nm, S(u) == 'T::into(slice::to_vec(%s))' % ident and N(u).count('(') == N(u).count(')'), 'sent identifier %s, remembered %s' % (S(u)[:100], ident[:100]), uid[0].where(), sample=S(u)[:80])
            # same binding, not merely the same expression (two calls to the generator would print alike)
            nu = re.match(r'^T::into\(slice::to_vec\((.*)\)\)$', N(u), re.S)
            nr = re.match(r'^Option::Some\{0: (.*)\}$', N(r), re.S)
            ctx.check('%s|one-generated-value' % nm, bool(nu and nr and nu.group(1) == nr.group(1) and re.match(r'^\w+$', nu.group(1))), 'sent %s, remembered %s' % (N(u)[:80], N(r)[:80]), sample=True)
        rets = [v for _, v in ret_assigns(b)]
        ctx.check('%s|returns-that-identifier' % nm, len(rets) == 1 and re.search(r', RequestIdentifier\{expected_origin_timestamp: .*, uid: Option::Some\{0: ', rets[0], re.S) is not None, 'returns %s' % [v[-160:] for v in rets], sample=len(rets))
    ht = P.body(SRC + '::handle_timer')
    ws = [(s, written_value(ht, s)) for s, fld in self_writes(ht) if fld == 'current_request_identifier' and s.kind == 'assign']
    ok = len(ws) >= 1 and all(re.match(r'^Option::Some\{0: \(.*\{.*\}\.1, ', v, re.S) or re.match(r'^Option::Some\{0: \(', v) for _, v in ws)
    ctx.check('handle_timer|stores-identifier', ok, 'current_request_identifier written with %s' % [v[:120] for _, v in ws], sample=len(ws))


def r7(ctx):
    # a replayed copy of an accepted answer must find no pending request: the identifier is consumed before the measurement is handed over
    from rules import C08
    C08.r2(ctx)


RULES = [r1, r2, r3, r4, r5, r6, r7]
FLOORS = {'C07-R1': 8, 'C07-R2': 6, 'C07-R3': 8, 'C07-R4': 10, 'C07-R5': 3, 'C07-R6': 11, 'C08-R2': 6}
