"""C03 — the clock is only steered on a majority consensus of usable sources."""
import re

from engine.rulelib import *
from engine.run import site_desc

EXPLANATION = (
    "FLOW/GUARD/PRED rules: update_clock feeds select() only snapshots whose usable flag is set; every steering call and "
    "every clock/timedata update is dominated by `combine(..) is Some` (combine is Some only for a non-empty selection); "
    "select() returns a non-empty selection only under max >= minimum_agreeing_sources and max*4 > bounds.len() (two bounds "
    "per voter: strict majority); voters exclude periodic, too-uncertain and unsynchronised sources; the returned set is "
    "filtered on uncertainty, interval overlap and synchronisation."
    ' The usable flag of a source has two writers only (inserted false, source_update stores its argument); storing a snapshot never touches it.'
)
NOT_DECIDED = ["correctness of the interval sweep on ties/touching intervals (value semantics)", "numeric radius computation"]

K = 'ntp_proto::algorithm::kalman::KalmanClockController'
SEL = 'ntp_proto::algorithm::kalman::select::select'
COMB = 'ntp_proto::algorithm::kalman::combiner::combine'
RADIUS = r'\(\(SourceSnapshot::offset_uncertainty\(.*\) \* algo_config\.range_statistical_weight\) \+ \(.*\.delay \* algo_config\.range_delay_weight\)\)'


def r1(ctx):
    ctx.rule('C03-R1', 'update_clock: the candidates given to select() are produced by a closure that yields a snapshot only on the `*usable` '
             'true edge; select receives (synchronization_config, algo_config, candidates)')
    P = ctx.P
    b = P.body(K + '::update_clock')
    s = one(b.calls(r'select::select$'), 'select call')
    a = [S(x) for x in b.call_args(s)]
    ctx.check('update_clock|select-args', a[0] == 'self.synchronization_config' and a[1] == 'self.algo_config', 'select called with %s' % a[:2], s.where(), sample=a[:2])
    m = re.match(r'^Vec::deref\(Iterator::collect\(Iterator::copied\(Iterator::filter_map\(HashMap::iter\(self\.sources\), closure:(.*)\)\)\)\)$', a[2])
    ctx.check('update_clock|candidates-pipeline', m is not None, 'candidates are `%s`' % a[2][:200], s.where(), sample=a[2][:240])
    if m:
        cl = [c for c in user_closures(P, b) if c.id.split('::', 1)[1] == m.group(1)]
        c = one(cl, 'candidate filter closure')
        somes = 0
        for r, v in ret_assigns(c):
            if v == 'Option::None{}':
                continue
            somes += 1
            ctx.guard(c, r, 'usable', lambda f: f.kind == 'bool' and f.pol and re.search(r'\.1$|usable', S(f.term)) is not None, key='update_clock|candidate-closure|usable')
            ctx.check('update_clock|candidate-closure|value', re.match(r'^Option::as_ref\(.*\.0\)$', v) is not None, 'candidate value `%s`' % v, r.where(), sample=v)
        ctx.check('update_clock|candidate-closure|yields', somes == 1, 'closure yield sites: %d' % somes, sample=somes)
    who = sorted({c[0].npath for c in P.callers_of(SEL)})
    ctx.check('who-calls-select', who == [K + '::update_clock'], 'callers of select: %s' % who, sample=who)


def r2(ctx):
    ctx.rule('C03-R2', 'every steering call and clock update in update_clock is dominated by `combine(&selection, ..) is Some`; combine returns '
             'Some only through selection.first().map(..)')
    P = ctx.P
    b = P.body(K + '::update_clock')
    comb = fact_is(r'^combiner::combine\(Vec::deref\(select::select\(', 'Some')
    sites = b.calls(r'KalmanClockController::(steer_offset|steer_frequency)$') + b.calls(r'NtpClock::(error_estimate_update|status_update|disable_ntp_algorithm)$')
    ctx.check('update_clock|effect-sites', len(sites) >= 5, 'expected steering/clock update calls, found %d' % len(sites), sample=len(sites))
    for s in sites:
        ctx.guard(b, s, 'consensus', comb, key='update_clock|%s|consensus' % site_desc(b, s))
    for s, f in self_writes(b):
        if f in ('timedata', 'in_startup'):
            ctx.guard(b, s, 'consensus', comb, key='update_clock|write-%s|%s|consensus' % (f, site_desc(b, s)))
    c = P.body(COMB)
    vals = [v for _, v in ret_assigns(c)]
    ctx.check('combine|first-map', len(vals) == 1 and re.match(r'^Option::map\(slice::first\(selection\), closure:', vals[0]) is not None,
              'combine returns %s' % vals, sample=vals)
    # steering primitives have no caller outside the guarded ones
    for fn in ('steer_offset', 'steer_frequency', 'change_desired_frequency'):
        who = sorted({x[0].npath for x in P.callers_of(K + '::' + fn)})
        # time_update ends a running slew (change_desired_frequency(0.0, 0.0)): removes the extra slew frequency,
        # not a correction from a new estimate
        tu = '<ntp_proto::algorithm::kalman::KalmanClockController as ntp_proto::algorithm::InternalTimeSyncController>::time_update'
        allowed = {K + '::update_clock', K + '::steer_offset', K + '::change_desired_frequency'} | ({tu} if fn == 'change_desired_frequency' else set())
        if fn == 'change_desired_frequency' and tu in who:
            tb = P.body(tu)
            a = [S(x) for s in tb.calls(r'change_desired_frequency$') for x in tb.call_args(s)[1:]]
            ctx.check('time_update|ends-slew-only', a == ['0.0', '0.0'], 'time_update steers with %s' % a, sample=a)
        ctx.check('who-calls-%s' % fn, set(who) <= allowed,
                  'callers of %s: %s' % (fn, who), sample=who)


def r3(ctx):
    ctx.rule('C03-R3', 'select: non-empty result only under max >= minimum_agreeing_sources and max*4 > bounds.len(); bounds get exactly two '
             'entries per voter; voters skip periodic, radius > maximum_source_uncertainty and unsynchronised sources; the result filter requires '
             'radius ok, both overlap comparisons and is_synchronized')
    P = ctx.P
    b = P.body(SEL)
    rets = ret_assigns(b)
    nonempty = [(s, v) for s, v in rets if 'Iterator::collect' in v]
    empty = [(s, v) for s, v in rets if 'Iterator::collect' not in v]
    ctx.check('select|result-forms', len(nonempty) == 1 and len(empty) == 1, 'result forms: %s' % [v[:60] for _, v in rets], sample=[v[:80] for _, v in rets])
    # the sweep's accumulators are found by role, not by name: the usize maxima are the locals updated with `cur` in the Start arm (low)
    # and in the End arm (high); the f64 bounds are the locals updated with `*time` in the same arms
    role = {}
    for i, l in enumerate(b.locals):
        if not (l.get('user') and l.get('name')) or l['ty'] not in ('usize', 'f64'):
            continue
        ds = [d for d in (b.defs().get(i) or []) if d[2] == 'assign']
        if len(ds) != 2:
            continue
        upd = [d for d in ds if S(b.rvalue_term(d[3])) not in ('0', '0.0')]
        if len(upd) != 1:
            continue
        arms = [a for a in ('Start', 'End') if b.must_pass(upd[0][0], fact_is(r'^\(?.*\)?\.1$|boundtype|\.1\b', [a]))]
        val = S(b.rvalue_term(upd[0][3]))
        if len(arms) == 1 and not re.search(r' [+-] 1\)$', val):
            role[('count' if l['ty'] == 'usize' else 'time', 'low' if arms[0] == 'Start' else 'high')] = l['name']
    ctx.check('select|sweep-accumulators', len(role) == 4, 'sweep accumulators by role: %s' % {'%s-%s' % k: v for k, v in role.items()}, sample={'%s-%s' % k: v for k, v in role.items()})
    lo, hi = re.escape(role.get(('count', 'low'), '\0')), re.escape(role.get(('count', 'high'), '\0'))
    tlo, thi = re.escape(role.get(('time', 'low'), '\0')), re.escape(role.get(('time', 'high'), '\0'))
    MAXT = r'^%s\{' % lo
    for s, v in nonempty:
        ctx.guard(b, s, 'min-agreeing', fact_cmp('Ge', MAXT, r'^synchronization_config\.minimum_agreeing_sources$'), key='select|result|min-agreeing')
        ctx.guard(b, s, 'strict-majority', fact_cmp('Gt', r'^\(%s\{.*\} \* 4\)$' % lo, r'^Vec::len\(Vec::with_capacity\('), key='select|result|strict-majority')
        ctx.guard(b, s, 'bounds-agree', fact_cmp('Eq', MAXT, r'^%s\{' % hi), key='select|result|bounds-agree')
        ctx.check('select|result|pipeline', re.match(r'^Iterator::collect\(Iterator::copied\(Iterator::filter\(slice::iter\(candidates\), closure:', v) is not None,
                  'result is `%s`' % v[:160], s.where(), sample=v[:200])
    pushes = some(b.calls(r'Vec::push$'), 'bounds.push calls')
    ctx.check('select|two-bounds-per-voter', len(pushes) == 2, 'bounds.push sites: %d' % len(pushes), sample=len(pushes))
    kinds = sorted(re.search(r'BoundType::(\w+)', S(b.call_args(p)[1])).group(1) for p in pushes)
    ctx.check('select|bound-kinds', kinds == ['End', 'Start'], 'bound kinds pushed: %s' % kinds, sample=kinds)
    for p in pushes:
        ctx.guard(b, p, 'non-periodic', fact_is(r'\.period$', 'None'), key='select|%s|non-periodic' % site_desc(b, p))
        ctx.guard(b, p, 'radius-ok', fact_cmp('Le', '^' + RADIUS + '$', r'^algo_config\.maximum_source_uncertainty$'), key='select|%s|radius-ok' % site_desc(b, p))
        ctx.guard(b, p, 'synchronized', fact_call(r'NtpLeapIndicator::is_synchronized$', True), key='select|%s|synchronized' % site_desc(b, p))
    cnt = b.count_paths(lambda x: x in {p.bb for p in pushes}, cap=3)
    # result filter closure
    flt = [c for c in user_closures(P, b) if any('is_synchronized' in v for _, v in ret_assigns(c))]
    c = one(flt, 'result filter closure of select')
    for s, v in ret_assigns(c):
        if v == '0':
            continue
        ctx.check('select|filter|last-conjunct', v == 'NtpLeapIndicator::is_synchronized(snapshot.leap_indicator)', 'filter result `%s`' % v, s.where(), sample=v)
        ctx.guard(c, s, 'radius-ok', fact_cmp('Le', r'^' + RADIUS + '$', r'^algo_config\.maximum_source_uncertainty$'), key='select|filter|radius-ok')
        ctx.guard(c, s, 'overlap-high', fact_cmp('Le', r'^\(SourceSnapshot::offset\(snapshot\) - ' + RADIUS + r'\)$', r'^%s\b' % thi), key='select|filter|overlap-high')
        ctx.guard(c, s, 'overlap-low', fact_cmp('Ge', r'^\(SourceSnapshot::offset\(snapshot\) \+ ' + RADIUS + r'\)$', r'^%s\b' % tlo), key='select|filter|overlap-low')
    ib = P.body('ntp_proto::packet::NtpLeapIndicator::is_synchronized')
    isy = [v for _, v in ret_assigns(ib)]
    # `!matches!(self, Unsynchronized)`: the inner flag is 1 exactly on the `self is Unsynchronized` edge
    ones = [s for s in ib.assigns(lambda pl: pl['l'] != 0 and not pl['p']) if s.kind == 'assign' and written_value(ib, s) == '1']
    zeros = [s for s in ib.assigns(lambda pl: pl['l'] != 0 and not pl['p']) if s.kind == 'assign' and written_value(ib, s) == '0']
    ok = isy == ['!({0 | 1})'] and len(ones) == 1 and ib.must_pass(ones[0].bb, fact_is(r'^self$', ['Unsynchronized'])) \
        and len(zeros) == 1 and ib.must_pass(zeros[0].bb, fact_is(r'^self$', ['NoWarning', 'Leap61', 'Leap59', 'Unknown']))
    ctx.check('is_synchronized|shape', ok, 'is_synchronized is no longer `!matches!(self, Unsynchronized)`: %s' % isy, sample=isy)


def r4(ctx):
    ctx.rule('C03-R4', 'the usable flag of a source (second component of its entry in KalmanClockController.sources) has exactly two writers: add_source / '
             'add_one_way_source insert (None, false), and source_update stores its `usable` argument; storing a snapshot (source_message) and the steering '
             'loops write only the first component; no entry is overwritten as a whole')
    P = ctx.P
    writes, inserts = [], []
    for b in P.bodies.values():
        if b.raw['promoted'] is not None or 'kalman::KalmanClockController' not in b.npath:
            continue
        fn = b.npath.split('::')[-1]
        for st in b.assigns(lambda pl: True):
            if st.kind == 'assign' and st.data['place']['p']:
                t = S(b.place_term(st.data['place']))
                if 'self.sources' in t:
                    # which component of the (snapshot, usable) entry is written: the first `.0.<n>` after the entry is obtained from the map
                    m = re.search(r'self\.sources[^)]*\)+ as Some\)\.0(\.[01])?', t)
                    writes.append((fn, (m.group(1) or '') if m else '?' + t[:60], S(b.rvalue_term(st.data['rv']))[:60], st))
        for c in b.calls(r'HashMap::(insert|entry|extend)$'):
            if 'self.sources' in S(b.call_args(c)[0]):
                inserts.append((fn, [S(a) for a in b.call_args(c)][1:]))
    flag = [(fn, v) for fn, path, v, _ in writes if path == '.1']
    ctx.check('usable-flag|writers', flag == [('source_update', 'usable')], 'writers of the usable flag: %s' % flag, sample=flag)
    whole = [(fn, path) for fn, path, v, _ in writes if path in ('', '?') or path.startswith('?')]
    ctx.check('usable-flag|no-whole-entry-write', not whole, 'a source entry (snapshot, usable) is overwritten as a whole in %s: this resets or forces the usable flag' % whole,
              (next(st for fn, path, v, st in writes if (fn, path) in whole).where() if whole else None), sample=len(writes))
    other = sorted({(fn, path) for fn, path, v, _ in writes if path == '.0'})
    ctx.check('snapshot-component|writers', {fn for fn, _ in other} == {'source_message', 'update_clock', 'steer_offset', 'steer_frequency'}, 'writers of the snapshot component: %s' % other, sample=other)
    ctx.check('usable-flag|initially-false', sorted(inserts) == [('add_one_way_source', ['id', '(Option::None{}, 0)']), ('add_source', ['id', '(Option::None{}, 0)'])],
              'entries are inserted as %s' % inserts, sample=inserts)


RULES = [r1, r2, r3, r4]
FLOORS = {'C03-R1': 5, 'C03-R2': 10, 'C03-R3': 16, 'C03-R4': 4}
