"""C15 — server access policy is enforced in order."""
import re

from engine.rulelib import *
from engine.run import site_desc

EXPLANATION = (
    "GUARD/TABLE rules plus a path-sensitive reachability on the `action` variable of Server::handle_inner: deny list "
    "before allow list before rate limiter; ProvideTime only past all three; the Ok result (the only way a response is "
    "produced) is reachable only for action != Ignore, an accepted version and - on every path including the "
    "decrypt-error path - a client-mode packet; with require_nts set, no time response builder is reachable for a "
    "request without NTS."
)
NOT_DECIDED = ["the set semantics of the IP filter's bit trie (C31); its address-family normalisation and tree dispatch are evaluated here too (rule C31-R2), because a deny "
               "entry that cannot match is an access-policy violation", "rate-limit cache behaviour (C20)"]

SRV = 'ntp_proto::server::Server'
DENY_T = fact_call(r'IpFilter::is_in$', True, [r'^self\.denyfilter$', r'^client_ip$'])
DENY_F = fact_call(r'IpFilter::is_in$', False, [r'^self\.denyfilter$', r'^client_ip$'])
ALLOW_T = fact_call(r'IpFilter::is_in$', True, [r'^self\.allowfilter$', r'^client_ip$'])
ALLOW_F = fact_call(r'IpFilter::is_in$', False, [r'^self\.allowfilter$', r'^client_ip$'])
RATE_T = fact_call(r'TimestampedCache::is_allowed$', True, [r'^self\.client_cache$', r'^client_ip$'])
RATE_F = fact_call(r'TimestampedCache::is_allowed$', False, [r'^self\.client_cache$', r'^client_ip$'])
SR = ['Ignore', 'Deny', 'NTSNak', 'ProvideTime']


def action_local(b):
    cands = [i for i, l in enumerate(b.locals) if l['ty'] == 'ntp_proto::server::ServerResponse' and l.get('user')
             and len(b.defs().get(i, [])) >= 2]
    return one(cands, 'mutable ServerResponse local (action) in handle_inner')


def r1(ctx):
    ctx.rule('C15-R1', 'intended_action: allow list consulted only after a deny-list miss, rate limiter only after deny miss and '
             'allow hit; ProvideTime only past all three; deny outcome uses denylist.action, allow outcome allowlist.action')
    b = ctx.P.body(SRV + '::intended_action')
    ctx.guard(b, one(b.calls(r'IpFilter::is_in$', ) and [s for s in b.calls(r'IpFilter::is_in$') if S(b.call_args(s)[0]) == 'self.allowfilter'],
                     'allowfilter.is_in call'), 'deny-miss', DENY_F, key='intended_action|allow-check|deny-miss')
    rl = one(b.calls(r'TimestampedCache::is_allowed$'), 'client_cache.is_allowed call')
    ctx.guard(b, rl, 'deny-miss', DENY_F, key='intended_action|rate-check|deny-miss')
    ctx.guard(b, rl, 'allow-hit', ALLOW_T, key='intended_action|rate-check|allow-hit')
    a = [S(x) for x in b.call_args(rl)]
    ctx.check('intended_action|rate-check|args', a[1] == 'client_ip' and a[3] == 'self.config.rate_limiting_cutoff',
              'rate limiter called with %s' % a, rl.where(), sample=a)
    table = {}
    for s, v in ret_assigns(b):
        table[v] = s
    exp = {
        '(T::into(self.config.denylist.action), ServerReason::Policy{})': [('deny-hit', DENY_T)],
        '(T::into(self.config.allowlist.action), ServerReason::Policy{})': [('deny-miss', DENY_F), ('allow-miss', ALLOW_F)],
        '(ServerResponse::Ignore{}, ServerReason::RateLimit{})': [('deny-miss', DENY_F), ('allow-hit', ALLOW_T), ('rate-limited', RATE_F)],
        '(ServerResponse::ProvideTime{}, ServerReason::Policy{})': [('deny-miss', DENY_F), ('allow-hit', ALLOW_T), ('rate-ok', RATE_T)],
    }
    ctx.check('intended_action|outcomes', sorted(table) == sorted(exp), 'outcomes of intended_action: %s' % sorted(table), sample=sorted(table))
    for v, reqs in exp.items():
        if v in table:
            for name, pred in reqs:
                ctx.guard(b, table[v], name, pred, key='intended_action|%s|%s' % (v.split(',')[0].strip('('), name))
    # FilterAction -> ServerResponse conversion
    conv = ctx.P.bodies_matching(r'^<ntp_proto::server::ServerResponse as core::convert::From>::from$')
    got = set()
    for cb in conv:
        for s, v in ret_assigns(cb):
            for fa in ('Ignore', 'Deny'):
                if cb.must_pass(s.bb, fact_is(r'.', [fa])):
                    got.add((fa, v))
    ctx.check('FilterAction->ServerResponse', got == {('Ignore', 'ServerResponse::Ignore{}'), ('Deny', 'ServerResponse::Deny{}')},
              'filter action conversion table is %s' % sorted(got), sample=sorted(got))


def r2(ctx):
    ctx.rule('C15-R2', 'handle_inner returns Ok (=> a response) only if action != Ignore, accepted_versions.contains(version) and, on every '
             'path, packet.mode() == Client; handle() responds only on the Ok edge of handle_inner')
    P = ctx.P
    b = P.body(SRV + '::handle_inner')
    oks = some(b.aggregates(r'core::result::Result$', 'Ok'), 'Ok(..) construction in handle_inner')
    for s in oks:
        ctx.guard(b, s, 'action!=Ignore', fact_cmp('Ne', r'^action\{|intended_action\(self, client_ip\)\.0', r'^ServerResponse::Ignore\{\}$'),
                  key='handle_inner|Ok|not-ignored')
        ctx.guard(b, s, 'accepted-version', fact_call(r'slice::contains$', True, [r'self\.config\.accepted_versions', r'NtpPacket::version\(']),
                  key='handle_inner|Ok|accepted-version')
        ctx.guard(b, s, 'mode==Client', fact_cmp('Eq', r'^NtpPacket::mode\(', r'^NtpAssociationMode::Client\{\}$'),
                  key='handle_inner|Ok|client-mode',
                  msg='a response can be produced for a packet whose mode was never compared with Client (on the '
                      'decrypt-error path non-client packets are answered with an NTS NAK)')
        ctx.guard(b, s, 'parsed', any_of(fact_is(r'^NtpPacket::deserialize\(message, self\.keyset\)$', 'Ok'),
                                         fact_is(r'NtpPacket::deserialize\(message, self\.keyset\) as Err\)\.0$', 'DecryptError')),
                  key='handle_inner|Ok|parsed')
    h = P.body(SRV + '::handle')
    for s in some(h.aggregates(r'server::ServerAction$', 'Respond'), 'Respond construction in handle'):
        ctx.guard(h, s, 'handle_inner-ok', fact_is(r'^Server::handle_inner\(', 'Ok'), key='handle|Respond|inner-ok')
        ctx.guard(h, s, 'serialize-ok', fact_is(r'^NtpPacket::serialize\(', 'Ok'), key='handle|Respond|serialize-ok')
    who = sorted({c[0].npath for c in P.callers_of(SRV + '::handle_inner')})
    ctx.check('who-calls-handle_inner', set(who) <= {SRV + '::handle', SRV + '::fuzz_handle_inner'}, 'callers: %s' % who, sample=who)


def r3(ctx):
    ctx.rule('C15-R3', 'require-NTS: once `!nts && require_nts is Some(a)` is established, a == Ignore returns Err(Ignore) and otherwise no '
             'time-providing builder (timestamp_response / nts_timestamp_response) is reachable (path-sensitive on `action`)')
    b = ctx.P.body(SRV + '::handle_inner')
    al = action_local(b)
    starts = [(s, d) for (s, d, fs) in b.edges() if fs and all(fact_is(r'^self\.config\.require_nts$', 'Some')(f) for f in fs)]
    ctx.check('handle_inner|require_nts-edge', len(starts) == 1, 'require_nts Some edge not found', sample=len(starts))
    time_blocks = {s.bb for s in b.calls(r'NtpPacket::(nts_)?timestamp_response$')}
    ctx.check('handle_inner|time-builders', len(time_blocks) == 2, 'expected 2 time response builders', sample=len(time_blocks))
    # the NTS flag of the request: the bool local handed over as HandleInnerData.nts (found through that use, not by name)
    lit = one(b.aggregates(r'server::HandleInnerData$'), 'HandleInnerData construction')
    nts_l = root_local(b, lit.data['rv']['ops'][lit.data['rv']['fields'].index('nts')])
    nts_name = b.locals[nts_l]['name'] if nts_l is not None else '\0'
    for (s0, d0) in starts:
        ctx.check('handle_inner|require_nts|only-for-non-nts', b.must_pass(s0, lambda f: f.kind == 'bool' and not f.pol and re.match(r'^%s\b' % re.escape(nts_name), tstr(f.term)) is not None),
                  'require_nts consulted although the request is NTS', sample=b.guard_strings(s0)[-3:])
        seen = b.var_reach(al, SR, start_bb=d0)
        hit = sorted(x for x in time_blocks if x in seen)
        ctx.check('handle_inner|require_nts|no-time', not hit, 'a time response is reachable for a plain request although NTS is required',
                  sample={'reachable_time_builders': hit})
        ign = [x for x in seen if any(1 for s in b.aggregates(r'ServerAction$', 'Ignore') if s.bb == x)]
        ctx.check('handle_inner|require_nts|ignore-path', len(ign) >= 1, 'no Ignore result reachable under require_nts', sample=ign)
    # the nts flag itself
    nl = [i for i, l in enumerate(b.locals) if l.get('name') == 'nts']
    if nl:
        vals = sorted({S(b._def_term(d, ())) for d in b.defs()[nl[0]] if d[2] != 'partial'})
        ok = any(re.search(r'== ServerResponse::NTSNak', v) for v in vals) and '1' in vals
        ctx.check('handle_inner|nts-definition', ok and b.must_pass(
            [d for d in b.defs()[nl[0]] if S(b._def_term(d, ())) == '1'][0][0], fact_is(r'as Ok\)\.0\.1', 'Some')),
            'nts is no longer `cookie.is_some() || action == NTSNak`: %s' % vals, sample=vals)


def r4(ctx):
    ctx.rule('C15-R4', 'builder per action: NTSNak -> nts_nak_response; Deny -> nts_deny_response (cookie) | deny_response; ProvideTime -> '
             'nts_timestamp_response (cookie) | timestamp_response; the Ignore arm is unreachable (path-sensitive)')
    b = ctx.P.body(SRV + '::handle_inner')
    al = action_local(b)
    name = b.local_name(al)
    isv = lambda v: (lambda f: f.kind == 'is' and b._is_local_term(f.term, name) and set(f.variants) <= {v})
    table = [
        ('nts_nak_response', 'NTSNak', None), ('nts_deny_response', 'Deny', 'Some'), ('deny_response', 'Deny', 'None'),
        ('nts_timestamp_response', 'ProvideTime', 'Some'), ('timestamp_response', 'ProvideTime', 'None'),
    ]
    for fn, act, ck in table:
        s = one(b.calls(r'NtpPacket::%s$' % fn), fn + ' call')
        ctx.guard(b, s, 'action=' + act, isv(act), key='handle_inner|%s|action' % fn)
        if ck:
            ctx.guard(b, s, 'cookie=' + ck, fact_is(r'as Ok\)\.0\.1', ck), key='handle_inner|%s|cookie' % fn)
    seen = b.var_reach(al, SR)
    arms = [d for (s, d, fs) in b.edges() if fs and all(isv('Ignore')(f) for f in fs)]
    ctx.check('handle_inner|ignore-arm-unreachable', len(arms) == 1 and arms[0] not in seen,
              '`ServerResponse::Ignore => unreachable!()` arm is reachable', sample={'arm': arms, 'reachable': [a in seen for a in arms]})


def r5(ctx):
    # the deny/allow filters can only enforce the policy if an address of either family reaches the tree its entries live in
    from rules import C31
    C31.r2(ctx)


RULES = [r1, r2, r3, r4, r5]
FLOORS = {'C15-R1': 14, 'C15-R2': 7, 'C15-R3': 5, 'C15-R4': 9, 'C31-R2': 6}
