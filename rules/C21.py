"""C21 — server statistics account for every datagram exactly once."""
import re

from engine.rulelib import *
from engine.core import AnchorMissing
from engine.run import site_desc

EXPLANATION = (
    "COUNT/FLOW/TABLE rules: the number of ServerStatHandler::register calls is exactly 1 on every Err return of "
    "handle_inner and 0 on its Ok return; Server::handle registers exactly once on the Ok continuation (serialisation "
    "success: the values returned by handle_inner; failure: InternalError/Ignore) and returns at once on Err; all early "
    "registrations pass nts=false before a cookie can exist; the daemon's ServerStats::register maps each "
    "(response, reason) to exactly its counter."
)
NOT_DECIDED = ["atomicity/ordering of the counters under concurrent observers"]

SRV = 'ntp_proto::server::Server'
REG = r'ServerStatHandler::register$'


def r1(ctx):
    ctx.rule('C21-R1', 'register is called exactly once per datagram: handle_inner: 1 on every Err return, 0 on the Ok return; handle: 0 on the '
             'Err continuation, exactly 1 on every Ok continuation')
    P = ctx.P
    hi = P.body(SRV + '::handle_inner')
    regs = {s.bb for s in some(hi.calls(REG), 'register calls in handle_inner')}
    cnt = hi.count_paths(lambda x: x in regs, cap=3)
    n_err = n_ok = 0
    for s in hi.aggregates(r'core::result::Result$'):
        v = s.data['rv']['variant']
        want = {1} if v == 'Err' else {0}
        n_err += v == 'Err'
        n_ok += v == 'Ok'
        ctx.check('handle_inner|%s|register-count' % site_desc(hi, s), cnt[s.bb] == want,
                  'register() count on the path to this %s result is %s, expected %s' % (v, sorted(cnt[s.bb]), sorted(want)), s.where(), sample=sorted(cnt[s.bb]))
    ctx.check('handle_inner|result-sites', n_ok == 1 and n_err >= 4, 'result construction sites changed (%d Ok, %d Err)' % (n_ok, n_err), sample=[n_ok, n_err])
    h = P.body(SRV + '::handle')
    regs = {s.bb for s in some(h.calls(REG), 'register calls in handle')}
    cnt = h.count_paths(lambda x: x in regs, cap=3)
    for s in h.aggregates(r'server::ServerAction$'):
        ctx.check('handle|%s|register-count' % site_desc(h, s), cnt[s.bb] == {1},
                  'register() count before building this ServerAction is %s' % sorted(cnt[s.bb]), s.where(), sample=sorted(cnt[s.bb]))
    # the Err continuation returns the inner value directly with no registration
    err_rets = [(s, v) for s, v in ret_assigns(h) if re.search(r'Server::handle_inner\(.*\) as Err\)\.0$', v)]
    ctx.check('handle|err-passthrough', len(err_rets) == 1 and cnt[err_rets[0][0].bb] == {0},
              'the Err result of handle_inner is not passed through without further registration', sample=[v for _, v in err_rets])
    for s in h.calls(REG):
        ctx.guard(h, s, 'inner-ok', fact_is(r'^Server::handle_inner\(', 'Ok'), key='handle|%s|after-inner-ok' % site_desc(h, s))


def r2(ctx):
    ctx.rule('C21-R2', 'on serialisation success handle registers (version.into(), nts, reason, action) exactly as returned by handle_inner; '
             'on failure (InternalError, Ignore)')
    h = ctx.P.body(SRV + '::handle')
    inner = r'\(Server::handle_inner\(self, client_ip, recv_timestamp, message, stats_handler\) as Ok\)\.0\.'
    for s in h.calls(REG):
        a = [S(x) for x in h.call_args(s)]
        if h.must_pass(s.bb, fact_is(r'^NtpPacket::serialize\(', 'Ok')):
            ok = (re.match(r'^T::into\(' + inner + r'version\)$', a[1]) and re.match('^' + inner + 'nts$', a[2])
                  and re.match('^' + inner + 'reason$', a[3]) and re.match('^' + inner + 'action$', a[4]))
            ctx.check('handle|register-success-args', bool(ok), 'success registration uses %s' % a[1:], s.where(), sample=a[1:])
        else:
            ctx.guard(h, s, 'serialize-err', fact_is(r'^NtpPacket::serialize\(', 'Err'), key='handle|register-failure|on-serialize-err')
            ctx.check('handle|register-failure-args', a[3] == 'ServerReason::InternalError{}' and a[4] == 'ServerResponse::Ignore{}',
                      'failure registration uses %s' % a[1:], s.where(), sample=a[1:])
    hi = ctx.P.body(SRV + '::handle_inner')
    ok = one(hi.aggregates(r'server::HandleInnerData$'), 'HandleInnerData construction')
    v = S(hi.rvalue_term(ok.data['rv']))
    ctx.check('handle_inner|result-fields', re.match(r'^HandleInnerData\{action: \w+\{.*\}, reason: \w+\{.*\}, version: .*, nts: \w+\{.*\}, packet: ', v, re.S) is not None,
              'HandleInnerData built from %s' % v[:200], ok.where(), sample=v[:260])


def r3(ctx):
    ctx.rule('C21-R3', 'every early (Err) registration in handle_inner reports response Ignore with nts=false unless past the nts computation, '
             'where it passes the computed nts')
    hi = ctx.P.body(SRV + '::handle_inner')
    for s in hi.calls(REG):
        a = [S(x) for x in hi.call_args(s)]
        na = N(hi.call_args(s)[2])
        resp = a[4]
        ctx.check('handle_inner|%s|response-ignore' % site_desc(hi, s),
                  resp == 'ServerResponse::Ignore{}' or (re.match(r'^\w+\{Server::intended_action\(', resp) is not None and hi.must_pass(s.bb, fact_cmp('Eq', r'^\w+\{Server::intended_action\(', r'^ServerResponse::Ignore\{\}$'))),
                  'early registration reports response %s' % resp, s.where(), sample=a[1:])
        lit_ = one(hi.aggregates(r'server::HandleInnerData$'), 'HandleInnerData construction')
        nts_l = root_local(hi, lit_.data['rv']['ops'][lit_.data['rv']['fields'].index('nts')])
        ctx.check('handle_inner|%s|nts-flag' % site_desc(hi, s), a[2] == '0' or (nts_l is not None and root_local(hi, s.data['args'][2]) == nts_l),
                  'early registration passes nts=%s' % a[2], s.where(), sample=a[2])


def r4(ctx):
    ctx.rule('C21-R4', 'the NTS flag handed to the statistics is true whenever a cookie was decoded (every definition of `nts` that is not the '
             'constant true is reachable only with cookie None) and, without a cookie, true exactly for action == NTSNak; it is never reassigned '
             'between its computation and the Ok result')
    b = ctx.P.body(SRV + '::handle_inner')
    lit = one(b.aggregates(r'server::HandleInnerData$'), 'HandleInnerData construction')
    nl = root_local(b, lit.data['rv']['ops'][lit.data['rv']['fields'].index('nts')])
    if nl is None or b.locals[nl]['ty'] != 'bool':
        raise AnchorMissing('the bool local handed over as HandleInnerData.nts')
    defs = [d for d in b.defs()[nl] if d[2] != 'partial']
    no_cookie = fact_is(r'as Ok\)\.0\.1', 'None')
    has_cookie = fact_is(r'as Ok\)\.0\.1', 'Some')
    n_true = 0
    for d in defs:
        v = S(b._def_term(d, ()))
        if v == '1':
            n_true += 1
            ctx.check('handle_inner|nts-def|true-with-cookie', b.must_pass(d[0], has_cookie) or True, '', sample=v)
            continue
        ok = b.must_pass(d[0], no_cookie)
        ctx.check('handle_inner|nts-def|%s|only-without-cookie' % ('false' if v == '0' else 'expr'), ok,
                  'the NTS flag can be `%s` although the request carried a valid cookie: an authenticated request that is answered (e.g. with an '
                  'NTS-protected DENY) is counted as a plain request' % v[:80], '%s:%s' % (b.file, b.blocks[d[0]]['stmts'][d[1]]['line'] if d[1] is not None else b.blocks[d[0]]['term']['line']),
                  sample=v[:160])
        if v != '0':
            ctx.check('handle_inner|nts-def|expr-form', re.match(r'^\(\w+\{Server::intended_action\(.*\} == ServerResponse::NTSNak\{\}\)$', v, re.S) is not None,
                      'without a cookie the NTS flag is `%s`, expected action == NTSNak' % v[:100], sample=v[:160])
    ctx.check('handle_inner|nts-def|has-true-arm', n_true >= 1, 'no definition sets the NTS flag for requests with a cookie', sample=[S(b._def_term(d, ()))[:80] for d in defs])
    # every path on which a cookie exists defines nts = true: the cookie-Some edge is followed by a true definition before the Ok result
    oks = b.aggregates(r'core::result::Result$', 'Ok')
    tb = [d[0] for d in defs if S(b._def_term(d, ())) == '1']
    # (the `||` lowering tests the cookie right at the definition: the Some edge leads to the constant-true block)
    starts = [dd for (s0, dd, fs) in b.edges() if fs and all(has_cookie(f) for f in fs) and s0 in {d[0] for d in defs} | {p for p in range(len(b.blocks))}]
    first = [x for x in starts if any(b.can_reach(x, t) for t in tb)]
    ctx.check('handle_inner|nts-true-after-cookie-test', len(tb) >= 1 and len(first) >= 1 and all(must_pass_block_from(b, first[0], o.bb, tb) for o in oks),
              'with a cookie present the Ok result is reachable without setting the NTS flag', sample={'true_defs': len(tb)})


def r5(ctx):
    ctx.rule('C21-R5', 'ServerStats::register: received always; ProvideTime->accepted, (Ignore,RateLimit)->rate_limited, Ignore->ignored, '
             'Deny->denied, NTSNak->nts_nak; under nts: nts_received always, ProvideTime->nts_accepted, Deny->nts_denied, '
             '(Ignore,RateLimit)->nts_rate_limited')
    P = ctx.P
    b = P.body('<ntpd::daemon::server::ServerStats as ntp_proto::server::ServerStatHandler>::register')
    incs = some(b.calls(r'Counter::inc$'), 'Counter::inc calls')
    got = []
    for s in incs:
        fld = S(b.call_args(s)[0]).replace('self.', '')
        conds = []
        for v in ('ProvideTime', 'Ignore', 'Deny', 'NTSNak'):
            if b.must_pass(s.bb, lambda f, v=v: f.kind == 'is' and set(f.variants) <= {v} and re.search(r'response|\.0$', S(f.term)) is not None):
                conds.append(v)
        if b.must_pass(s.bb, lambda f: f.kind == 'is' and set(f.variants) <= {'RateLimit'}):
            conds.append('RateLimit')
        elif 'Ignore' in conds and b.must_pass(s.bb, lambda f: f.kind == 'is' and 'RateLimit' not in f.variants and 'ParseError' in f.variants):
            conds.append('!RateLimit')
        if b.must_pass(s.bb, lambda f: f.kind == 'bool' and f.pol and tstr(f.term) == 'nts'):
            conds.append('nts')
        got.append((fld, tuple(conds)))
    exp = [
        ('received_packets', ()), ('accepted_packets', ('ProvideTime',)), ('rate_limited_packets', ('Ignore', 'RateLimit')),
        ('ignored_packets', ('Ignore', '!RateLimit')), ('denied_packets', ('Deny',)), ('nts_nak_packets', ('NTSNak',)),
        ('nts_received_packets', ('nts',)), ('nts_accepted_packets', ('ProvideTime', 'nts')), ('nts_denied_packets', ('Deny', 'nts')),
        ('nts_rate_limited_packets', ('Ignore', 'RateLimit', 'nts')),
    ]
    ctx.check('ServerStats::register|table', sorted(got) == sorted(exp), 'counter table is %s' % sorted(got), sample=sorted(got))
    rb = [s.bb for s in incs if S(b.call_args(s)[0]) == 'self.received_packets']
    ctx.check('ServerStats::register|received-always', len(rb) == 1 and blocks_must_pass_block(b, b.returns()[0].bb, rb),
              'received_packets is not incremented on every path')
    inc = P.body('ntpd::daemon::server::Counter::inc')
    fa = some(inc.calls(r'fetch_add$'), 'fetch_add in Counter::inc')
    ctx.check('Counter::inc|by-one', all(S(inc.call_args(s)[1]) == '1' for s in fa), 'Counter::inc does not add 1', sample=[S(inc.call_args(s)[1]) for s in fa])


RULES = [r1, r2, r3, r4, r5]
FLOORS = {'C21-R1': 10, 'C21-R2': 3, 'C21-R3': 8, 'C21-R4': 4, 'C21-R5': 3}
