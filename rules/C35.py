"""C35 — pool sources are distinct, bounded and respect the ignore list."""
import re
from engine.rulelib import *
from engine.run import site_desc

EXPLANATION = (
    "GUARD/FLOW rules on PoolSpawner::try_spawn and NtsPoolSpawner::try_spawn: a source is pushed only under "
    "current_sources.len() < config.count; every address entering known_ips is filtered by the retain closure (not already "
    "connected, not on the ignore list) and nothing is appended after that filter; the popped address is compared with the "
    "active sources right before it is used (or known_ips is de-duplicated), so duplicates within one DNS answer or across "
    "left-over and fresh lookups cannot yield two sources for one address; removal retains by id; the NTS pool checks "
    "contains_source before adding and bounds the loop by count - active."
)
NOT_DECIDED = ["DNS behaviour", "task scheduling between spawner and system"]
POOL = r'<ntpd::daemon::spawn::pool::PoolSpawner as ntpd::daemon::spawn::Spawner>'
NPOOL = r'<ntpd::daemon::spawn::nts_pool::NtsPoolSpawner as ntpd::daemon::spawn::Spawner>'
BELOW = fact_cmp('Lt', r'^Vec::len\(self\.current_sources\)$', r'^self\.config\.count$', names=True)


def r1(ctx):
    ctx.rule('C35-R1', 'PoolSpawner::try_spawn: current_sources.push only under current_sources.len() < config.count; is_complete is len >= count')
    P = ctx.P
    b = P.body(POOL + '::try_spawn::{closure#0}')
    push = one([s for s in b.calls(r'Vec::push$') if N(b.call_args(s)[0]) == 'self.current_sources'], 'current_sources.push')
    ctx.guard(b, push, 'below-count', BELOW, key='pool|push|below-count')
    v = S(b.call_args(push)[1])
    ctx.check('pool|push|value', v == 'PoolSource{id: ClockId::new(), addr: (Vec::pop(self.known_ips) as Some).0}', 'pushed `%s`' % v, push.where(), sample=v)
    ic = [x for _, x in ret_assigns(P.body(POOL + '::is_complete'))]
    ctx.check('pool|is_complete', ic == ['(Vec::len(self.current_sources) >= self.config.count)'], 'is_complete is %s' % ic, sample=ic)
    # the loop re-tests the bound before every push: the push block cannot reach itself without passing the test
    tests = [s0 for (s0, d0, fs) in b.edges() if fs and all(BELOW(f) for f in fs)]
    ctx.check('pool|bound-retested-per-push', len(tests) >= 1 and all(must_pass_block_from(b, b.succ(push.bb)[0], push.bb, tests) for _ in [0]),
              'a second push is reachable without re-testing the bound', sample=len(tests))


def r2(ctx):
    ctx.rule('C35-R2', 'ignore list: known_ips only grows by append(lookup result) immediately followed by retain(|ip| !connected(ip) && '
             '!config.ignore.any(|ign| *ign == ip.ip())); no append/push to known_ips after the retain')
    P = ctx.P
    b = P.body(POOL + '::try_spawn::{closure#0}')
    grows = [s for s in b.calls(r'Vec::(append|push|extend|insert|extend_from_slice)$|Extend::extend$') if N(b.call_args(s)[0]) == 'self.known_ips']
    ret = [s for s in b.calls(r'Vec::retain$') if N(b.call_args(s)[0]) == 'self.known_ips']
    ctx.check('pool|known_ips-growth-sites', len(grows) == 1 and len(ret) == 1, 'known_ips growth sites %d, retain sites %d' % (len(grows), len(ret)), sample=[len(grows), len(ret)])
    if grows and ret:
        pops = [s for s in b.calls(r'Vec::pop$')]
        ctx.check('pool|retain-after-growth', all(must_pass_block_from(b, grows[0].bb, p.bb, [ret[0].bb]) for p in pops) and not b.can_reach(ret[0].bb, grows[0].bb),
                  'addresses can reach the pool without passing the ignore/connected filter')
        clo = re.search(r'closure:(.*)$', N(b.call_args(ret[0])[1])).group(1)
        cb = one([c for c in P.bodies.values() if c.id.split('::', 1)[1] == clo], 'retain closure')
        cv = [x for _, x in ret_assigns(cb)]
        ign = [x for x in cv if 'self.config.ignore' in x]
        ctx.check('pool|retain|ignore-conjunct', len(ign) == 1 and ign[0].startswith('!(') and len(cv) == 2 and '0' in cv, 'retain closure returns %s' % cv, sample=cv)
        ctx.check('pool|retain|connected-conjunct', any(cb.must_pass(s.bb, fact_call(r'::any$', False, [r'self\.current_sources'])) for s, x in ret_assigns(cb) if x != '0'),
                  'retain closure no longer drops already connected addresses', sample=cv)
        inner = [c for c in P.bodies.values() if c.raw.get('parent') == cb.id and c.raw['promoted'] is None]
        forms = sorted(x for c in inner for _, x in ret_assigns(c))
        ctx.check('pool|retain|comparisons', any(re.match(r'^\(p\.addr == ip\)$', f) for f in forms) and any(re.search(r'ign == SocketAddr::ip\(ip\)', f) for f in forms), 'comparison closures %s' % forms, sample=forms)


def r3(ctx):
    ctx.rule('C35-R3', 'uniqueness: on every path to current_sources.push the popped address was tested against the active sources '
             '(!current_sources.iter().any(|p| p.addr == addr)) after the pop; NTS pool: '
             'push only past !contains_source(remote)')
    P = ctx.P
    b = P.body(POOL + '::try_spawn::{closure#0}')
    push = one([s for s in b.calls(r'Vec::push$') if N(b.call_args(s)[0]) == 'self.current_sources'], 'current_sources.push')
    pop = one(b.calls(r'Vec::pop$'), 'known_ips.pop')
    uniq = fact_call(r'::any$', False, [r'^slice::iter\(Vec::deref\(self\.current_sources\)\)$|^slice::iter\(self\.current_sources\)$'], names=True)
    tested = any(fs and all(uniq(f) for f in fs) and b.can_reach(pop.bb, s0) for (s0, d0, fs) in b.edges()) and b.must_pass(push.bb, uniq)
    # de-duplicating known_ips is not accepted as a substitute: Vec::dedup only removes adjacent repeats, and an address
    # can become active after the list was last filtered; only the comparison of the popped address with the active sources decides
    dedup = [s for s in b.calls(r'Vec::(dedup|dedup_by|dedup_by_key)$') if 'known_ips' in N(b.call_args(s)[0])]
    ctx.check('pool|push|address-not-active', tested,
              'two active sources for one address are possible: duplicates inside known_ips (a DNS answer listing an address twice, or left-over '
              'entries plus an overlapping fresh lookup) are popped and pushed without comparing the popped address with the active sources',
              push.where(), sample={'post-pop-test': tested, 'dedup': len(dedup)})
    nb = P.body(NPOOL + '::try_spawn::{closure#0}')
    npush = one([s for s in nb.calls(r'Vec::push$') if N(nb.call_args(s)[0]) == 'self.current_sources'], 'nts pool push')
    ctx.guard(nb, npush, 'not-contained', fact_call(r'NtsPoolSpawner::contains_source$', False), key='nts_pool|push|not-contained')
    rng = [S(nb.rvalue_term(s.data['rv'])) for s in nb.aggregates(r'::Range$')]
    ctx.check('nts_pool|loop-bound', rng == ['Range{start: 0, end: num::saturating_sub(self.config.count, Vec::len(self.current_sources))}'], 'nts pool loop range %s' % rng, sample=rng)
    cnt = nb.count_paths(lambda x: x == npush.bb, cap=3)
    cs = P.body('ntpd::daemon::spawn::nts_pool::NtsPoolSpawner::contains_source')
    cv = [x for _, x in ret_assigns(cs)]
    ctx.check('nts_pool|contains_source', len(cv) == 1 and 'self.current_sources' in cv[0] and '::any(' in cv[0], 'contains_source is %s' % cv, sample=cv)


def r4(ctx):
    ctx.rule('C35-R4', 'handle_source_removed drops exactly the source with the removed id: current_sources.retain(|p| p.id != removed_source.id) (both pools)')
    P = ctx.P
    for nm, base in (('pool', POOL), ('nts_pool', NPOOL)):
        b = P.body(base + '::handle_source_removed::{closure#0}')
        r = one(b.calls(r'Vec::retain$'), 'retain in handle_source_removed')
        ctx.check('%s|removed|target' % nm, N(b.call_args(r)[0]) == 'self.current_sources', 'retain on %s' % N(b.call_args(r)[0]), r.where(), sample=N(b.call_args(r)[0]))
        cl = [c for c in P.bodies.values() if c.raw.get('parent') == b.id and c.raw['promoted'] is None]
        forms = [x for c in cl for _, x in ret_assigns(c)]
        ctx.check('%s|removed|by-id' % nm, forms == ['(p.id != removed_source.id)'], 'retain predicate %s' % forms, sample=forms)


RULES = [r1, r2, r3, r4]
FLOORS = {'C35-R1': 4, 'C35-R2': 5, 'C35-R3': 4, 'C35-R4': 4}
