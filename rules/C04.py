"""C04 — leap-second announcements follow a strict majority of the selected sources."""
import re

from engine.rulelib import *
from engine.run import site_desc

EXPLANATION = (
    "PRED/FLOW/GUARD/TABLE rules: vote_leap returns Some(X) only under votes_X*2 > selection.len() - votes_unknown (strict), "
    "each counter is incremented exactly in the arm of its variant, its only input is the selection handed to combine; "
    "update_clock applies the indicator to the kernel and to timedata only on the `leap_indicator is Some` edge with the "
    "same value, timedata.leap_indicator has no other writer; the kernel mapping is the identity on NoWarning/Leap61/Leap59."
)
NOT_DECIDED = ["integer arithmetic of the vote counters for selections larger than usize (not reachable)"]

COMBM = 'ntp_proto::algorithm::kalman::combiner'
K = 'ntp_proto::algorithm::kalman::KalmanClockController'


def r1(ctx):
    ctx.rule('C04-R1', 'vote_leap: Some(X) only if votes_X * 2 > selection.len() - votes_unknown (strict, same subtrahend); counters are '
             'incremented by one in the arm of the matching variant only; None otherwise')
    b = ctx.P.body(COMBM + '::vote_leap')
    # the four vote counters are found by role, not by name: user locals with the definitions {0, (itself + 1)}, each classified by the
    # leap-indicator arm in which its increment sits
    arm_of = {}
    incs = {}
    for i, l in enumerate(b.locals):
        if not (l.get('user') and l.get('name')):
            continue
        ds = [d for d in (b.defs().get(i) or []) if d[2] == 'assign']
        vals = sorted(S(b.rvalue_term(d[3])) for d in ds)
        if len(ds) == 2 and vals[1] == '0' and re.match(r'^\(%s\{.*\} \+ 1\)$' % re.escape(l['name']), vals[0]):
            inc = [d for d in ds if S(b.rvalue_term(d[3])) != '0'][0]
            arms = [a for a in ('NoWarning', 'Leap59', 'Leap61', 'Unknown') if b.must_pass(inc[0], fact_is(r'\.leap_indicator$', [a]))]
            if len(arms) == 1:
                arm_of[arms[0]] = l['name']
                incs[l['name']] = (S(b.rvalue_term(inc[3])), inc[0])
    ctx.check('vote_leap|counters', sorted(arm_of) == ['Leap59', 'Leap61', 'NoWarning', 'Unknown'], 'vote counters found per arm: %s' % arm_of, sample=arm_of)
    counter = {k: v for k, v in arm_of.items() if k != 'Unknown'}
    unk = re.escape(arm_of.get('Unknown', '\0'))
    seen = set()
    for s, v in ret_assigns(b):
        m = re.match(r'^Option::Some\{0: NtpLeapIndicator::(\w+)\{\}\}$', v)
        if not m:
            ctx.check('vote_leap|none-form', v == 'Option::None{}', 'unexpected result form `%s`' % v, s.where(), sample=v)
            continue
        var = m.group(1)
        seen.add(var)
        cn = counter.get(var)
        ctx.check('vote_leap|%s|known-variant' % var, cn is not None, 'vote_leap can announce %s' % var, s.where())
        if cn:
            g = fact_cmp('Gt', r'^\(%s\{.*\} \* 2\)$' % re.escape(cn), r'^\(slice::len\(selection\) - %s\{.*\}\)$' % unk)
            ctx.guard(b, s, 'strict-majority', g, key='vote_leap|%s|strict-majority' % var,
                      msg='Some(%s) is not guarded by (votes for %s)*2 > selection.len() - (votes for Unknown)' % (var, var))
            ctx.guard(b, s, 'after-count', fact_is(r'Iter::next\(', 'None'), key='vote_leap|%s|after-count' % var)
    ctx.check('vote_leap|announces', seen == set(counter), 'announced variants: %s' % sorted(seen), sample=sorted(seen))
    # counter increments: exactly one `+ 1` per counter, in the arm of its own variant (established above), and no other writer
    key_of = {'NoWarning': 'votes_none', 'Leap59': 'votes_59', 'Leap61': 'votes_61', 'Unknown': 'votes_unknown'}
    for arm, kname in key_of.items():
        nm = arm_of.get(arm)
        v, bb = incs.get(nm, (None, None))
        ok = v is not None and b.must_pass(bb, fact_is(r'\.leap_indicator$', [arm]))
        ctx.check('vote_leap|%s|increment-arm' % kname, ok, 'the counter of %s is updated with `%s` outside the %s arm' % (arm, v, arm), sample=v)


def r2(ctx):
    ctx.rule('C04-R2', 'vote_leap is called only by combine, with the selection slice combine received; combine is called with the result of select')
    P = ctx.P
    who = sorted({c[0].npath for c in P.callers_of(COMBM + '::vote_leap')})
    ctx.check('who-calls-vote_leap', len(who) == 1 and who[0].startswith(COMBM + '::combine'), 'callers of vote_leap: %s' % who, sample=who)
    for w in who:
        cb = P.body(w)
        for s in cb.calls(r'combiner::vote_leap$'):
            ctx.check('combine|vote_leap-arg', S(cb.call_args(s)[0]) == 'selection', 'vote_leap receives `%s`' % S(cb.call_args(s)[0]), s.where(), sample=S(cb.call_args(s)[0]))
    u = P.body(K + '::update_clock')
    c = one(u.calls(r'combiner::combine$'), 'combine call')
    a = S(u.call_args(c)[0])
    ctx.check('update_clock|combine-arg', re.match(r'^Vec::deref\(select::select\(', a) is not None, 'combine receives `%s`' % a[:80], c.where(), sample=a[:120])


def r3(ctx):
    ctx.rule('C04-R3', 'update_clock: clock.status_update(leap) and timedata.leap_indicator = leap happen only on `combined.leap_indicator is Some` '
             'with that value; timedata.leap_indicator has no other writer')
    P = ctx.P
    u = P.body(K + '::update_clock')
    su = one(u.calls(r'NtpClock::status_update$'), 'status_update call')
    some_leap = fact_is(r'\.leap_indicator$', 'Some')
    ctx.guard(u, su, 'leap-some', some_leap, key='update_clock|status_update|leap-some')
    a = S(u.call_args(su)[1])
    ctx.check('update_clock|status_update|value', re.search(r'combiner::combine\(.*\) as Some\)\.0\.leap_indicator as Some\)\.0$', a) is not None,
              'status_update receives `%s`' % a[-120:], su.where(), sample=a[-140:])
    ws = [(s, written_value(u, s)) for s in u.field_writes('leap_indicator', r'TimeSnapshot$') if s.kind == 'assign']
    ctx.check('update_clock|timedata-leap-write', len(ws) == 1 and ws[0][1] == a, 'timedata.leap_indicator set to %s' % [v[-80:] for _, v in ws], sample=[v[-100:] for _, v in ws])
    for s, v in ws:
        ctx.guard(u, s, 'leap-some', some_leap, key='update_clock|timedata-leap-write|leap-some')
    allw = sorted({bd.npath for bd, s in P.field_writers('leap_indicator', r'system::TimeSnapshot$')})
    # NtpManager::new: construction-time default for a stratum-1 (reference clock) server, before any source exists
    init = 'ntp_proto::system::NtpManager::new'
    ctx.check('who-writes-timedata.leap_indicator', set(allw) <= {K + '::update_clock', init} and (K + '::update_clock') in allw,
              'writers of TimeSnapshot.leap_indicator: %s' % allw, sample=allw)
    if init in allw:
        nb = P.body(init)
        for s in nb.field_writes('leap_indicator', r'TimeSnapshot$'):
            ctx.check('NtpManager::new|initial-leap', written_value(nb, s) == 'NtpLeapIndicator::NoWarning{}' and nb.must_pass(
                s.bb, fact_cmp('Eq', r'^synchronization_config\.local_stratum$', r'^1$')), 'NtpManager::new presets leap to %s' % written_value(nb, s), s.where(),
                sample=written_value(nb, s))


def r4(ctx):
    ctx.rule('C04-R4', 'NtpClockWrapper::status_update maps NoWarning/Leap61/Leap59 to the same-named kernel indicator and Unknown|Unsynchronized to Unknown')
    b = ctx.P.body('<ntpd::daemon::clock::NtpClockWrapper as ntp_proto::clock::NtpClock>::status_update')
    table = {}
    for s in b.aggregates(r'clock_steering::LeapIndicator$'):
        out = s.data['rv']['variant']
        for v in ('NoWarning', 'Leap61', 'Leap59', 'Unknown', 'Unsynchronized'):
            if b.must_pass(s.bb, fact_is(r'^leap_status$', [v])):
                table[v] = out
        if b.must_pass(s.bb, fact_is(r'^leap_status$', ['Unknown', 'Unsynchronized'])) and not b.must_pass(s.bb, fact_is(r'^leap_status$', ['Unknown'])):
            table['Unknown|Unsynchronized'] = out
    exp = {'NoWarning': 'NoWarning', 'Leap61': 'Leap61', 'Leap59': 'Leap59', 'Unknown|Unsynchronized': 'Unknown'}
    ctx.check('status_update|table', table == exp, 'leap mapping is %s' % table, sample=table)
    sl = one(b.calls(r'set_leap_seconds$'), 'set_leap_seconds call')
    ctx.check('status_update|applies', True, '', sample=S(b.call_args(sl)[1])[:120])


def r5(ctx):
    ctx.rule('C04-R5', 'the `Unsynchronized => panic!` arm of vote_leap is unreachable only because select()\'s result filter requires '
             'is_synchronized (recorded dependency on C03-R3)')
    P = ctx.P
    b = P.body(COMBM + '::vote_leap')
    pans = [s for s in b.calls(r'core::panicking::panic_fmt$|core::panicking::panic$')]
    ctx.check('vote_leap|panic-arm', len(pans) == 1 and b.must_pass(pans[0].bb, fact_is(r'\.leap_indicator$', ['Unsynchronized'])),
              'panic arm structure changed', sample=len(pans))
    sel = P.body('ntp_proto::algorithm::kalman::select::select')
    flt = [c for c in user_closures(P, sel) if any('is_synchronized' in v for _, v in ret_assigns(c))]
    ctx.check('select|filter-requires-synchronized', len(flt) == 1, 'select no longer filters its result on is_synchronized: the vote_leap panic arm becomes reachable',
              sample=len(flt))


RULES = [r1, r2, r3, r4, r5]
FLOORS = {'C04-R1': 11, 'C04-R2': 3, 'C04-R3': 5, 'C04-R4': 2, 'C04-R5': 2}
