"""C34 — NTPv5 Bloom filters are transferred faithfully (structural part)."""
import re

from engine.rulelib import *
from engine.run import site_desc

EXPLANATION = (
    "GUARD/FLOW rules: RemoteBloomFilter::handle_response copies a chunk only if a request is outstanding, the client cookie "
    "equals the one stored with the request and the chunk has exactly chunk_size bytes; it copies to filter[offset..][..chunk_size], "
    "then advances and clears the outstanding request; chunk sizes must divide 512 and be multiples of 4; the filter is "
    "reported complete only after the offset wrapped to 0; the server answers a chunk request with "
    "filter.get(offset..)?.get(..len)? (exact bytes or nothing); contains_id is all(is_set) over the same indices add_id sets."
)
NOT_DECIDED = ["completeness over all chunk orderings/losses as a history property", "hash quality of server ids"]

M = 'ntp_proto::packet::v5::server_reference_id'
RB = M + '::RemoteBloomFilter'
BF = M + '::BloomFilter'


def r1(ctx):
    ctx.rule('C34-R1', 'handle_response writes the filter only past: last_requested is Some, cookie == stored cookie, bytes.len() == chunk_size; '
             'copies into filter.0[offset..][..chunk_size] from response.bytes(); then advance_next_to_request() and last_requested = None; '
             'new() rejects chunk sizes that are 0, > 512, not multiples of 4 or not dividing 512')
    P = ctx.P
    b = P.body(RB + '::handle_response')
    cp = one(b.calls(r'core::slice::copy_from_slice$|slice::copy_from_slice$'), 'copy_from_slice in handle_response')
    ctx.guard(b, cp, 'outstanding', fact_is(r'^self\.last_requested$', 'Some'), key='handle_response|copy|outstanding')
    ctx.guard(b, cp, 'cookie-match', fact_cmp('Eq', r'^cookie$', r'^\(self\.last_requested as Some\)\.0\.1$'), key='handle_response|copy|cookie-match')
    ctx.guard(b, cp, 'exact-length', fact_cmp('Eq', r'^slice::len\(ReferenceIdResponse::bytes\(response\)\)$', r'^\(self\.chunk_size as usize\)$'), key='handle_response|copy|exact-length')
    a = [S(x) for x in b.call_args(cp)]
    ok = a[0] == 'index::index_mut(index::index_mut(self.filter.0, RangeFrom{start: ((self.last_requested as Some).0.0 as usize)}), RangeTo{end: (self.chunk_size as usize)})' \
        or re.match(r'^(array|index)::index_mut\((array|index)::index_mut\(self\.filter\.0, RangeFrom\{start: \(\(self\.last_requested as Some\)\.0\.0 as usize\)\}\), RangeTo\{end: \(self\.chunk_size as usize\)\}\)$', a[0]) is not None
    ctx.check('handle_response|copy|destination', ok, 'chunk copied to `%s`' % a[0], cp.where(), sample=a[0])
    ctx.check('handle_response|copy|source', a[1] == 'ReferenceIdResponse::bytes(response)', 'chunk copied from `%s`' % a[1], cp.where(), sample=a[1])
    adv = one(b.calls(r'RemoteBloomFilter::advance_next_to_request$'), 'advance_next_to_request')
    clr = [s for s, f in self_writes(b) if f == 'last_requested' and s.kind == 'assign' and written_value(b, s).startswith('Option::None')]
    oks = [s for s, v in ret_assigns(b) if v.startswith('Result::Ok')]
    ctx.check('handle_response|ok-after-copy-advance-clear', len(oks) == 1 and len(clr) == 1 and all(
        blocks_must_pass_block(b, oks[0].bb, [x.bb]) for x in (cp, adv, clr[0])), 'Ok(()) reachable without copy + advance + clearing the request')
    ws = sorted({bd.npath for bd, s in P.field_writers('filter', r'RemoteBloomFilter$')})
    ctx.check('who-writes-filter', set(ws) <= {RB + '::handle_response'}, 'writers of RemoteBloomFilter.filter: %s' % ws, sample=ws)
    n = P.body(RB + '::new')
    somes = [s for s, v in ret_assigns(n) if v.startswith('Option::Some')]
    for s in somes:
        ctx.guard(n, s, 'multiple-of-4', fact_call(r'::is_multiple_of$', True, [r'^chunk_size$', r'^4$']), key='new|Some|multiple-of-4')
        ctx.guard(n, s, 'nonzero', fact_cmp('Ne', r'^chunk_size$', r'^0$'), key='new|Some|nonzero')
        ctx.guard(n, s, 'at-most-512', fact_cmp('Le', r'^chunk_size$', r'^512$'), key='new|Some|at-most-512')
        ctx.guard(n, s, 'divides-512', fact_cmp('Eq', r'^\(512 % chunk_size\)$', r'^0$'), key='new|Some|divides-512')
    ctx.check('new|some-sites', len(somes) == 1, 'Some sites in new: %d' % len(somes), sample=len(somes))
    ad = P.body(RB + '::advance_next_to_request')
    w = {f: written_value(ad, s) for s, f in self_writes(ad) if s.kind == 'assign'}
    ctx.check('advance|next', w.get('next_to_request') == '((self.next_to_request + self.chunk_size) % (BYTES=512 as u16))', 'next offset is %s' % w.get('next_to_request'), sample=w)
    filled = [s for s, f in self_writes(ad) if f == 'is_filled']
    for s in filled:
        ctx.check('advance|filled-value', written_value(ad, s) == '1', 'is_filled set to %s' % written_value(ad, s), s.where(), sample=written_value(ad, s))
        ctx.guard(ad, s, 'wrapped', fact_cmp('Eq', r'^self\.next_to_request$', r'^0$'), key='advance|filled|wrapped')
    ff = [v for _, v in ret_assigns(P.body(RB + '::full_filter'))]
    ctx.check('full_filter|gated', ff == ['bool::then_some(self.is_filled, self.filter)'], 'full_filter is %s' % ff, sample=ff)
    nr = P.body(RB + '::next_request')
    w = [(f, written_value(nr, s)) for s, f in self_writes(nr) if s.kind == 'assign']
    ctx.check('next_request|stores-offset-and-cookie', w == [('last_requested', 'Option::Some{0: (self.next_to_request, cookie)}')], 'next_request stores %s' % w, sample=w)
    c = one(nr.calls(r'ReferenceIdRequest::new$'), 'ReferenceIdRequest::new')
    a = [S(x) for x in nr.call_args(c)]
    ctx.check('next_request|request', a == ['self.chunk_size', 'self.next_to_request'], 'request built with %s' % a, c.where(), sample=a)


def r2(ctx):
    ctx.rule('C34-R2', 'ReferenceIdRequest::to_response returns exactly filter.as_bytes().get(offset..)?.get(..payload_len)? or None')
    b = ctx.P.body('ntp_proto::packet::v5::extension_fields::ReferenceIdRequest::to_response')
    lits = b.aggregates(r'ReferenceIdResponse$')
    ctx.check('to_response|one-literal', len(lits) == 1, 'ReferenceIdResponse literals: %d' % len(lits), sample=len(lits))
    for s in lits:
        v = S(b.rvalue_term(s.data['rv']))
        ok = re.match(r'^ReferenceIdResponse\{bytes: T::into\(\(Option::branch\(slice::get\(\(Option::branch\((slice|array)::get\(BloomFilter::as_bytes\(filter\), '
                      r'RangeFrom\{start: \w+::from\(self\.offset\)\}\)\) as Continue\)\.0, RangeTo\{end: \w+::from\(self\.payload_len\)\}\)\) as Continue\)\.0\)\}$', v) is not None
        ctx.check('to_response|bytes', ok, 'response bytes are `%s`' % v, s.where(), sample=v)
    idx = b.calls(r'ops::index::Index::index$')
    ctx.check('to_response|no-panicking-index', not idx, 'to_response indexes the filter with [] (may panic)', sample=len(idx))


def r3(ctx):
    ctx.rule('C34-R3', 'contains_id = all(is_set) over the ServerId indices and add_id sets the same indices; is_set/set_bit use the same '
             'byte_and_mask; the filter is [u8; 512] and indices are 12-bit (byte index < 512)')
    P = ctx.P
    c = P.body(BF + '::contains_id')
    v = [x for _, x in ret_assigns(c)]
    ctx.check('contains_id|all', len(v) == 1 and re.match(r'^.*::all\(slice::iter\(other\.0\), closure:', v[0]) is not None, 'contains_id is %s' % v, sample=v)
    cl = one(user_closures(P, c), 'closure of contains_id')
    cv = [x for _, x in ret_assigns(cl)]
    ctx.check('contains_id|is_set', cv == ['BloomFilter::is_set(self, idx)'], 'membership test is %s' % cv, sample=cv)
    a = P.body(BF + '::add_id')
    sb = some(a.calls(r'BloomFilter::set_bit$'), 'set_bit in add_id')
    ctx.check('add_id|set_bit-per-index', len(sb) == 1 and a.must_pass(sb[0].bb, fact_is(r'IntoIter::next\(|Iterator::next\(|::next\(', 'Some'))
              and re.search(r'array::into_iter\(id\.0\)|into_iter\(id\.0\)', S(a.call_args(sb[0])[1])) is not None,
              'add_id does not set one bit per id index', sample=[S(a.call_args(s)[1])[:120] for s in sb])
    isb = P.body(BF + '::is_set')
    stb = P.body(BF + '::set_bit')
    iv = [x for _, x in ret_assigns(isb)]
    ctx.check('is_set|shape', iv == ['((self.0[U12::byte_and_mask(idx).0] & U12::byte_and_mask(idx).1) != 0)'], 'is_set is %s' % iv, sample=iv)
    sw = [(S(stb.place_term(s.data['place'])), written_value(stb, s)) for s, f in self_writes(stb) if s.kind == 'assign']
    ctx.check('set_bit|shape', sw == [('self.0[U12::byte_and_mask(idx).0]', '(self.0[U12::byte_and_mask(idx).0] | U12::byte_and_mask(idx).1)')], 'set_bit is %s' % sw, sample=sw)
    adt = P.adt(BF)
    ty = adt['variants'][0]['fields'][0]['ty']
    ctx.check('BloomFilter|512-bytes', P.const_val(BF + '::BYTES') == '512' and re.search(r'\[u8; ', ty) is not None, 'BloomFilter storage is %s' % ty, sample=[ty, P.const_val(BF + '::BYTES')])
    bm = P.body(M + '::U12::byte_and_mask')
    bv = [x for _, x in ret_assigns(bm)]
    ctx.check('U12::byte_and_mask|shape', len(bv) == 1, 'byte_and_mask forms %s' % bv, sample=bv)


RULES = [r1, r2, r3]
FLOORS = {'C34-R1': 18, 'C34-R2': 3, 'C34-R3': 7}
