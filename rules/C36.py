"""C36 — source (re)spawning is paced and follows removal reasons (structural part)."""
import re
from engine.rulelib import *
from engine.run import site_desc

EXPLANATION = (
    "GUARD/WHO rules on the coroutine of spawner_task and the single-source spawners: try_spawn is reached only with "
    "has_ticket && !is_complete(); has_ticket is cleared and last_ticket_time reset right after every attempt; has_ticket "
    "becomes true only initially and under last_ticket_time.elapsed() >= NETWORK_WAIT_PERIOD; while without a ticket the task "
    "waits at most the remainder of the period; StandardSpawner re-arms (has_spawned = false) only for removal reasons other "
    "than Demobilized and forgets the resolved address on Unreachable; the csptp/sock/pps spawners follow the same rule."
    ' A granted ticket is used before the task waits again (the spawn test lies between the grant and every wait).'
)
NOT_DECIDED = ["wall-clock pacing under the tokio scheduler (timing)", "NtsSpawner deliberately re-arms on every removal (new key exchange); the property speaks of the plain single-server spawner"]
SP = 'ntpd::daemon::spawn'


def r1(ctx):
    ctx.rule('C36-R1', 'spawner_task: try_spawn only under has_ticket && !spawner.is_complete(); afterwards has_ticket = false and last_ticket_time = '
             'Instant::now() on every path before the next loop iteration; has_ticket = true only at start and under elapsed() >= NETWORK_WAIT_PERIOD; '
             'without a ticket the wait is timeout(NETWORK_WAIT_PERIOD.saturating_sub(elapsed), ..)')
    P = ctx.P
    b = P.body(SP + '::spawner_task::{closure#0}')
    ts = one(b.calls(r'Spawner::try_spawn$'), 'try_spawn call')
    fl_idx = flag_locals(b)
    fl = one(sorted(set(fl_idx.values())), 'the ticket flag of spawner_task')
    ctx.guard(b, ts, 'has-ticket', lambda f: f.kind == 'bool' and f.pol and re.match(r'^%s\b' % re.escape(fl), tstr(f.term)) is not None, key='spawner_task|try_spawn|has-ticket')
    ctx.guard(b, ts, 'incomplete', fact_call(r'Spawner::is_complete$', False), key='spawner_task|try_spawn|incomplete')
    li = one(sorted(fl_idx), 'the ticket flag of spawner_task')
    trues, falses = [], []
    for d in b.defs()[li]:
        v = S(b._def_term(d, ()))
        (trues if v == '1' else falses).append(d)
    # the time of the last ticket: the Instant variable whose elapsed() is compared with the wait period (found through that use, not by name)
    els = sorted({root_local(b, s.data['args'][0]) for s in b.calls(r'Instant::elapsed$')} - {None})
    lt = one(els, 'the Instant variable read by elapsed() in spawner_task')
    period = fact_cmp('Ge', r'^Instant::elapsed\((%s\b|Instant::now\(\))' % re.escape(b.locals[lt]['name']), r'^NETWORK_WAIT_PERIOD', names=True)
    n_guarded = 0
    for d in trues:
        if d[0] == 0 or not b.must_pass(d[0], lambda f: True):
            continue
        n_guarded += 1
        ctx.check('spawner_task|ticket-granted|after-period', b.must_pass(d[0], period), 'a ticket is granted without waiting for the network wait period',
                  '%s:%s' % (b.file, b.blocks[d[0]]['stmts'][d[1]]['line']))
    # a granted ticket is used at once: from the grant, the spawn condition (is_complete) is evaluated before the task waits for events again
    # (otherwise an incomplete spawner holding a ticket sits in the untimed recv() until an unrelated event arrives)
    waits = [s.bb for s in b.calls(r'Receiver::recv$')] + [s.bb for s in b.calls(r'tokio::time::timeout::timeout$|time::timeout$')]
    # the spawn test: the branch on the ticket flag that every path to the is_complete() call goes through (path-insensitively the flag's false
    # edge skips is_complete(), so the test block itself is the waypoint, not the call)
    ic = [s.bb for s in b.calls(r'Spawner::is_complete$')]
    isflag = lambda f: f.kind == 'bool' and re.match(r'^%s\b' % re.escape(fl), tstr(f.term)) is not None
    conds = sorted({s0 for (s0, d0, fs) in b.edges() if fs and all(isflag(f) for f in fs) and ic and all(must_pass_block_from(b, 0, x, [s0]) for x in ic)})
    for d in trues:
        if d[0] == 0 or not b.must_pass(d[0], lambda f: True):
            continue
        ctx.check('spawner_task|ticket-granted|used-before-waiting', bool(conds) and all(must_pass_block_from(b, d[0], w, conds) for w in waits),
                  'after a ticket is granted the task can wait for events without first attempting to spawn: an incomplete spawner stops retrying at the wait-period pace',
                  '%s:%s' % (b.file, b.blocks[d[0]]['stmts'][d[1]]['line']), sample=len(waits))
    ctx.check('spawner_task|ticket-grant-sites', len(trues) == 2 and n_guarded == 1, 'ticket grant sites: %d (guarded %d)' % (len(trues), n_guarded), sample=[len(trues), n_guarded])
    ctx.check('spawner_task|ticket-consumed', len(falses) == 1, 'has_ticket = false sites: %d' % len(falses), sample=len(falses))
    resets = [d for d in b.defs()[lt] if d[0] != 0 and b.can_reach(ts.bb, d[0])]
    recv = [s.bb for s in b.calls(r'Receiver::recv$')]
    for d in falses:
        ctx.check('spawner_task|consume-after-attempt', b.can_reach(ts.bb, d[0]) and all(must_pass_block_from(b, ts.bb, r, [d[0]]) for r in recv),
                  'after a spawn attempt the task can wait for events while still holding the ticket')
    ctx.check('spawner_task|time-reset-after-attempt', len(resets) == 1 and all(must_pass_block_from(b, ts.bb, r, [resets[0][0]]) for r in recv)
              and S(b._def_term(resets[0], ())) == 'Instant::now()', 'last_ticket_time is not reset to now after an attempt', sample=len(resets))
    to = one(b.calls(r'tokio::time::timeout::timeout$|time::timeout$'), 'timeout call')
    a = S(b.call_args(to)[0])
    ctx.check('spawner_task|bounded-wait', re.match(r'^Duration::saturating_sub\(NETWORK_WAIT_PERIOD=.*, Instant::elapsed\((\w+\{?.*|Instant::now\(\))\)\)$', a) is not None and 'Instant::now()' in a, 'wait bound is `%s`' % a, to.where(), sample=a[:140])
    ctx.guard(b, to, 'no-ticket', lambda f: f.kind == 'bool' and not f.pol and re.match(r'^%s\b' % re.escape(fl), tstr(f.term)) is not None, key='spawner_task|timeout|no-ticket')
    c = P.const('ntpd::daemon::system::NETWORK_WAIT_PERIOD')
    nb = [x for x in P.bodies.values() if x.npath == 'ntpd::daemon::system::NETWORK_WAIT_PERIOD']
    v = [S(x.local_term(0)) for x in nb]
    ctx.check('NETWORK_WAIT_PERIOD|one-second', v == ['Duration::from_secs(1)'], 'NETWORK_WAIT_PERIOD is %s' % v, sample=v)


def r2(ctx):
    ctx.rule('C36-R2', 'handle_source_removed of the plain single-source spawners (standard, csptp, sock, pps): has_spawned = false only under reason != '
             'Demobilized; standard/csptp: resolved = None under reason == Unreachable')
    P = ctx.P
    for mod, ty, resolves in (('standard', 'StandardSpawner', True), ('csptp', 'CsptpSpawner', True), ('sock', 'SockSpawner', False), ('pps', 'PpsSpawner', False)):
        b = P.body('<%s::%s::%s as %s::Spawner>::handle_source_removed::{closure#0}' % (SP, mod, ty, SP))
        ws = [(s, f, written_value(b, s)) for s, f in self_writes(b) if s.kind == 'assign']
        hs = [(s, v) for s, f, v in ws if f == 'has_spawned']
        ctx.check('%s|rearm-site' % mod, len(hs) == 1 and hs[0][1] == '0', 'has_spawned writes %s' % [v for _, v in hs], sample=[v for _, v in hs])
        for s, v in hs:
            ctx.guard(b, s, 'not-demobilized', fact_cmp('Ne', r'removed_source\.reason$', r'SourceRemovalReason::Demobilized', names=True), key='%s|rearm|not-demobilized' % mod,
                      msg='a demobilised source is respawned')
        rs = [(s, v) for s, f, v in ws if f == 'resolved']
        if resolves:
            ctx.check('%s|forget-address-site' % mod, len(rs) == 1 and rs[0][1].startswith('Option::None'), 'resolved writes %s' % [v for _, v in rs], sample=[v for _, v in rs])
            for s, v in rs:
                ctx.guard(b, s, 'unreachable', fact_cmp('Eq', r'removed_source\.reason$', r'SourceRemovalReason::Unreachable', names=True), key='%s|forget-address|unreachable' % mod)
        other = sorted({f for _, f, _ in ws} - {'has_spawned', 'resolved'})
        ctx.check('%s|no-other-state' % mod, not other, 'handle_source_removed also writes %s' % other, sample=other)
    st = P.body('<%s::standard::StandardSpawner as %s::Spawner>::try_spawn::{closure#0}' % (SP, SP))
    look = st.calls(r'resolve_single_ntp_server$|lookup_host$|StandardSpawner::do_resolve$')
    ctx.check('standard|re-resolves-when-unresolved', len(look) >= 1, 'try_spawn no longer resolves the address', sample=[short_name(st.callee(c)['def']) for c in look])
    ic = [x for _, x in ret_assigns(P.body('<%s::standard::StandardSpawner as %s::Spawner>::is_complete' % (SP, SP)))]
    ctx.check('standard|is_complete', ic == ['self.has_spawned'], 'is_complete is %s' % ic, sample=ic)


RULES = [r1, r2]
FLOORS = {'C36-R1': 9, 'C36-R2': 14}
