"""C13 — NTS cookies are used once, oldest first, and never hoarded."""
import re

from engine.rulelib import *
from engine.run import site_desc, place_desc

EXPLANATION = (
    "TYPE/FLOW/WHO/COUNT rules: CookieStash is neither Clone nor Copy and stores [Vec<u8>; 8]; get() moves the slot at "
    "`read` out with mem::take, advances read by one modulo the length and decrements valid; store() writes slot "
    "(read+valid)%len and advances read only when full; handle_timer takes exactly one cookie per NTS request and "
    "hands it only to the request builder; the number of requested cookies is min(gap(), size bound) and the builders "
    "emit one cookie plus new_cookies-1 placeholders of the cookie's length."
)
NOT_DECIDED = ["FIFO order / 'newest eight kept' as ring arithmetic over arbitrary histories (value semantics)"]

CS = 'ntp_proto::cookiestash::CookieStash'
SRC = 'ntp_proto::source::NtpSource'
PKT = 'ntp_proto::packet::NtpPacket'


def r1(ctx):
    ctx.rule('C13-R1', 'CookieStash implements neither Clone nor Copy; storage is [Vec<u8>; MAX_COOKIES] with MAX_COOKIES == 8')
    P = ctx.P
    impls = [im['trait'] for im in P.impls_of(r'^ntp_proto::cookiestash::CookieStash$') if im['trait']]
    bad = [t for t in impls if re.search(r'(^|::)(Clone|Copy|ToOwned)$', t)]
    ctx.check('CookieStash|not-clone', not bad, 'CookieStash implements %s' % bad, sample=sorted(impls))
    a = P.adt(CS)
    f = {x['name']: x['ty'] for x in a['variants'][0]['fields']}
    ctx.check('CookieStash|storage', f.get('cookies') in ('[alloc::vec::Vec<u8>; 8]', '[alloc::vec::Vec<u8>; ntp_proto::cookiestash::MAX_COOKIES]', '[alloc::vec::Vec<u8>; MAX_COOKIES]'), 'cookie storage type is %s' % f.get('cookies'), sample=f)
    ctx.check('MAX_COOKIES', P.const_val('ntp_proto::cookiestash::MAX_COOKIES') == '8', 'MAX_COOKIES changed', sample=P.const_val('ntp_proto::cookiestash::MAX_COOKIES'))
    # the stash is not cloned through its owner either
    owner = [im['trait'] for im in P.impls_of(r'^ntp_proto::source::SourceNtsData$') if im['trait']]
    ctx.check('SourceNtsData|not-clone', not [t for t in owner if re.search(r'(^|::)(Clone|Copy)$', t)], 'SourceNtsData is Clone', sample=sorted(owner))


def r2(ctx):
    ctx.rule('C13-R2', 'get(): returns Some(mem::take(cookies[read])) only when valid != 0, then read=(read+1)%len, valid-=1, no clone; '
             'store(): writes cookies[(read+valid)%len]; valid+=1 if valid<len else read=(read+1)%len')
    P = ctx.P
    g = P.body(CS + '::get')
    takes = g.calls(r'core::mem::take$')
    ctx.check('get|take-once', len(takes) == 1, 'get() does not move the cookie out with mem::take exactly once', sample=len(takes))
    for s in takes:
        a = S(g.call_args(s)[0])
        ctx.check('get|take-slot', a == 'self.cookies[self.read]', 'get() takes `%s`' % a, s.where(), sample=a)
        ctx.guard(g, s, 'valid!=0', fact_cmp('Ne', r'^self\.valid$', r'^0$'), key='get|take|valid!=0')
    clones = g.calls(r'(Clone::clone|to_vec|to_owned)$')
    ctx.check('get|no-clone', not clones, 'get() copies the cookie', sample=len(clones))
    rets = ret_assigns(g)
    somes = [v for _, v in rets if v.startswith('Option::Some')]
    ctx.check('get|returns-taken', somes == ['Option::Some{0: mem::take(self.cookies[self.read])}'], 'get() returns %s' % somes, sample=[v for _, v in rets])
    w = sorted((f, written_value(g, s)) for s, f in self_writes(g) if s.kind == 'assign')
    ctx.check('get|state-update', w == [('read', '((self.read + 1) % slice::len(self.cookies))'), ('valid', '(self.valid - 1)')],
              'get() updates %s' % w, sample=w)
    for s, f in self_writes(g):
        if s.kind == 'assign':
            ctx.guard(g, s, 'valid!=0', fact_cmp('Ne', r'^self\.valid$', r'^0$'), key='get|write-%s|valid!=0' % f)
    st = P.body(CS + '::store')
    slot = [s for s, f in self_writes(st) if f == 'cookies' and s.kind == 'assign']
    ctx.check('store|slot', len(slot) == 1 and S(st.place_term(slot[0].data['place'])) == 'self.cookies[((self.read + self.valid) % slice::len(self.cookies))]'
              and written_value(st, slot[0]) == 'cookie',
              'store() writes %s' % [(S(st.place_term(s.data['place'])), written_value(st, s)) for s in slot],
              sample=[S(st.place_term(s.data['place'])) for s in slot])
    for s, f in self_writes(st):
        if s.kind != 'assign' or f == 'cookies':
            continue
        v = written_value(st, s)
        if f == 'valid':
            ctx.check('store|valid+1', v == '(self.valid + 1)', 'store() sets valid to %s' % v, s.where(), sample=v)
            ctx.guard(st, s, 'valid<len', fact_cmp('Lt', r'^self\.valid$', r'^slice::len\(self\.cookies\)$'), key='store|valid+1|valid<len')
        elif f == 'read':
            ctx.check('store|read+1', v == '((self.read + 1) % slice::len(self.cookies))', 'store() sets read to %s' % v, s.where(), sample=v)
            ctx.guard(st, s, 'full', fact_cmp('Ge', r'^self\.valid$', r'^slice::len\(self\.cookies\)$'), key='store|read+1|full')
        else:
            ctx.check('store|unexpected-write-%s' % f, False, 'store() writes field %s' % f, s.where())
    gp = [v for _, v in ret_assigns(P.body(CS + '::gap'))]
    ctx.check('gap|shape', gp == ['((slice::len(self.cookies) - self.valid) as u8)'], 'gap() is %s' % gp, sample=gp)
    # no other writer of the stash fields
    for fld in ('cookies', 'read', 'valid'):
        ws = sorted({bd.npath for bd, s in P.field_writers(fld, r'cookiestash::CookieStash$')})
        ctx.check('who-writes-%s' % fld, set(ws) <= {CS + '::get', CS + '::store'}, 'writers of CookieStash.%s: %s' % (fld, ws), sample=ws)


def r3(ctx):
    ctx.rule('C13-R3', 'handle_timer calls cookies.get() exactly once before each NTS request builder and passes that cookie only to the '
             'builder; CookieStash::get has no other caller; store is called only from process_message and key exchange')
    P = ctx.P
    b = P.body(SRC + '::handle_timer')
    gets = some(b.calls(r'CookieStash::get$'), 'cookies.get() in handle_timer')
    gb = {s.bb for s in gets}
    cnt = b.count_paths(lambda x: x in gb, cap=3)
    for s in some(b.calls(r'NtpPacket::nts_poll_message(_v5)?$'), 'NTS builders'):
        ctx.check('handle_timer|%s|one-get' % site_desc(b, s), cnt[s.bb] == {1}, 'cookies.get() count before NTS builder: %s' % sorted(cnt[s.bb]), s.where(), sample=sorted(cnt[s.bb]))
        a = S(b.call_args(s)[0])
        ctx.check('handle_timer|%s|cookie-arg' % site_desc(b, s), re.match(r'^Vec::deref\(\(CookieStash::get\(\(self\.nts as Some\)\.0\.cookies\) as Some\)\.0\)$', a) is not None,
                  'builder cookie argument is `%s`' % a, s.where(), sample=a)
    for s in b.calls(r'NtpPacket::poll_message'):
        ctx.check('handle_timer|%s|no-get' % site_desc(b, s), cnt[s.bb] == {0}, 'a cookie is consumed for a plain request', s.where(), sample=sorted(cnt[s.bb]))
    # uses of the cookie local: only builders, len(), drop
    cookie_users = []
    for s in b.calls():
        for a in b.call_args(s):
            if re.match(r'^(Vec::deref\(|Vec::len\()?cookie\)?$', N(a)):
                cookie_users.append(short_name(core_name(b, s)))
    allowed = {'NtpPacket::nts_poll_message', 'NtpPacket::nts_poll_message_v5', 'Vec::len', 'Vec::deref', 'Ord::max', 'Ord::min', 'Try::branch'}
    extra = sorted(set(cookie_users) - allowed)
    ctx.check('handle_timer|cookie-uses', not extra, 'the taken cookie also flows to %s' % extra, sample=sorted(set(cookie_users)))
    who = sorted({c[0].npath for c in P.callers_of(CS + '::get')})
    ctx.check('who-calls-get', who == [SRC + '::handle_timer'], 'callers of CookieStash::get: %s' % who, sample=who)


def core_name(b, s):
    fi = b.callee(s)
    from engine.core import callee_name
    return callee_name(fi) if fi else '<indirect>'


def r4(ctx):
    ctx.rule('C13-R4', 'requested cookies = min(cookies.gap(), size bound); builders emit exactly one NtsCookie(cookie) and push '
             'NtsCookiePlaceholder{cookie.len()} for the range 1..new_cookies')
    P = ctx.P
    b = P.body(SRC + '::handle_timer')
    for s in b.calls(r'NtpPacket::nts_poll_message(_v5)?$'):
        a = S(b.call_args(s)[1])
        ctx.check('handle_timer|%s|new_cookies' % site_desc(b, s), re.match(r'^Ord::min\(CookieStash::gap\(\(self\.nts as Some\)\.0\.cookies\), ', a) is not None,
                  'requested cookie count is `%s`' % a[:120], s.where(), sample=a[:200])
    builder_cookie_fields(ctx)


def builder_cookie_fields(ctx):
    """Both NTS request builders emit one cookie plus placeholders for 1..new_cookies, i.e. new_cookies cookie-sized fields (shared with C14-R3)."""
    P = ctx.P
    for nm in ('nts_poll_message', 'nts_poll_message_v5'):
        pb = P.body(PKT + '::' + nm)
        ck = pb.aggregates(r'ExtensionField$', 'NtsCookie')
        ctx.check('%s|one-cookie' % nm, len(ck) == 1 and re.search(r'to_vec\(cookie\)', S(pb.rvalue_term(ck[0].data['rv']))) is not None,
                  '%s does not put exactly the given cookie in the request' % nm, sample=[S(pb.rvalue_term(c.data['rv'])) for c in ck])
        ph = pb.aggregates(r'ExtensionField$', 'NtsCookiePlaceholder')
        ctx.check('%s|placeholder' % nm, len(ph) == 1 and S(pb.rvalue_term(ph[0].data['rv'])) == 'ExtensionField::NtsCookiePlaceholder{cookie_length: (slice::len(cookie) as u16)}',
                  '%s placeholder is %s' % (nm, [S(pb.rvalue_term(c.data['rv'])) for c in ph]), sample=[S(pb.rvalue_term(c.data['rv'])) for c in ph])
        rng = [S(pb.rvalue_term(s.data['rv'])) for s in pb.aggregates(r'::Range$')]
        ctx.check('%s|range' % nm, rng == ['Range{start: 1, end: new_cookies}'], '%s placeholder loop range is %s' % (nm, rng), sample=rng)
        for s in ph:
            ctx.guard(pb, s, 'loop-next-some', fact_is(r'range::next\(|Iterator::next\(', 'Some'), key='%s|placeholder|in-loop' % nm)
        # cookie is placed outside the loop
        for s in ck:
            ctx.check('%s|cookie-outside-loop' % nm, not pb.must_pass(s.bb, fact_is(r'range::next\(|Iterator::next\(', 'Some')),
                      'the cookie is added inside the placeholder loop', s.where())


RULES = [r1, r2, r3, r4]
FLOORS = {'C13-R1': 4, 'C13-R2': 16, 'C13-R3': 8, 'C13-R4': 12}
