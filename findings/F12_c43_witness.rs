// Witness for the C43 defect fixed in /repo (append at the end of statime-algo/src/lib.rs;
// `cargo test -p statime-algo f12_witness`). A fresh controller knows its system clock with offset 0 +/- 1e18 and
// frequency 0 +/- max_frequency. Before the fix KalmanController::clock_frequency returned the *offset* estimate
// (uncertainty 1e18) because it called state.filter.clock_offset.
#[cfg(all(test, feature = "std"))]
mod f12_witness {
    use super::*;

    #[derive(Clone)]
    struct TestClock;

    impl Clock for TestClock {
        fn now(&self) -> Result<Timestamp<TAI>, ClockError> {
            Ok(Timestamp::UNIX_EPOCH)
        }
        fn set_frequency(&self, _freq: f64) -> Result<Timestamp<TAI>, ClockError> {
            self.now()
        }
        fn get_frequency(&self) -> Result<f64, ClockError> {
            Ok(0.0)
        }
        fn max_frequency(&self) -> Result<f64, ClockError> {
            Ok(5e-4)
        }
        fn step_clock(&self, _offset: Duration) -> Result<Timestamp<TAI>, ClockError> {
            self.now()
        }
        fn error_estimate_update(&self, _e: Duration, _m: Duration) -> Result<(), ClockError> {
            Ok(())
        }
        fn leap_update(&self, _l: LeapStatus) -> Result<(), ClockError> {
            Ok(())
        }
        fn synchronization_update(&self, _s: bool) -> Result<(), ClockError> {
            Ok(())
        }
    }

    #[test]
    fn f12_witness_clock_frequency_reports_frequency() {
        let (controller, id) = KalmanController::<StdKalmanStorage<TestClock>, TestClock>::new(
            TestClock,
            1e-8,
            LinkFilterConfig {
                select_offset_uncertainty_window: 1.0,
                select_link_uncertainty_window: 1.0,
                select_delay_uncertainty_window: 1.0,
                select_max_window_size: 1.0,
                minimum_agreeing_sources: 1,
            },
        )
        .unwrap();
        let offset = controller.clock_offset(id).unwrap();
        let frequency = controller.clock_frequency(id).unwrap();
        assert_eq!(offset.uncertainty, 1e18);
        assert_eq!(frequency.uncertainty, 5e-4, "clock_frequency reported {frequency:?}");
    }
}
