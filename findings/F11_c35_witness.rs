// Witness for the C35 defect fixed in /repo (append inside `mod tests` of ntpd/src/daemon/spawn/pool.rs;
// `cargo test -p ntpd --lib f11_witness`). A DNS answer that lists the same address twice, with count = 2,
// produced two active sources for that address.
#[tokio::test]
async fn f11_witness_duplicate_dns_answer_yields_distinct_sources() {
    let addresses: Vec<std::net::SocketAddr> = vec!["127.0.0.1:123".parse().unwrap(), "127.0.0.1:123".parse().unwrap()];
    let mut pool = PoolSpawner::new(
        PoolSourceConfig {
            addr: NormalizedAddress::with_hardcoded_dns("example.com", 123, addresses).into(),
            count: 2,
            ignore: vec![],
            ntp_version: ProtocolVersion::v4_upgrading_to_v5_with_default_tries(),
        },
        SourceConfig::default(),
    );
    let (action_tx, mut action_rx) = mpsc::channel(MESSAGE_BUFFER_SIZE);
    pool.try_spawn(&action_tx).await.unwrap();
    let mut seen = vec![];
    while let Ok(res) = action_rx.try_recv() {
        seen.push(get_ntp_create_params(res).unwrap().addr);
    }
    let mut unique = seen.clone();
    unique.sort();
    unique.dedup();
    assert_eq!(seen.len(), unique.len(), "two active pool sources for the same address: {seen:?}");
}
