// Witness for known finding F3 (property C17). Append inside `mod tests` of
// ntp-proto/src/server.rs and run `cargo test -p ntp-proto --lib f3_witness`.
// An accepted NTPv4 request of 80 bytes (header + two 4-byte unique-identifier fields + 24-byte MAC)
// needs a 92-byte answer, so with a request-sized buffer the accepted request is dropped.
#[test]
fn f3_witness_request_sized_buffer_does_not_suffice() {
    let config = ServerConfig {
        denylist: FilterList { filter: vec![], action: FilterAction::Deny },
        allowlist: FilterList { filter: vec!["0.0.0.0/0".parse().unwrap()], action: FilterAction::Ignore },
        rate_limiting_cutoff: Duration::from_secs(1),
        rate_limiting_cache_size: 0,
        require_nts: None,
        accepted_versions: vec![NtpVersion::V4],
    };
    let clock = TestClock { cur: NtpTimestamp::from_fixed_int(200) };
    let mut stats = TestStatHandler::default();
    let mut server = Server::new_internal(config, clock, Arc::default(), KeySetProvider::new(1).get());

    let (packet, _id) = NtpPacket::poll_message(PollIntervalLimits::default().min);
    let mut request = serialize_packet_unencrypted(&packet);
    assert_eq!(request.len(), 48);
    // two unique-identifier extension fields of total length 4 (no value)
    request.extend_from_slice(&[0x01, 0x04, 0x00, 0x04]);
    request.extend_from_slice(&[0x01, 0x04, 0x00, 0x04]);
    // 24 trailing bytes are taken as a MAC
    request.extend_from_slice(&[0u8; 24]);
    assert_eq!(request.len(), 80);

    // policy decides to answer (ProvideTime) but the request-sized buffer is too small
    let mut buf = vec![0u8; request.len()];
    let response = server.handle("127.0.0.1".parse().unwrap(), NtpTimestamp::from_fixed_int(100), &request, &mut buf, &mut stats);
    let reg = stats.last_register.take();
    let fits = matches!(response, ServerAction::Respond { .. });

    // with a larger buffer the same request is answered with 92 bytes
    let mut big = vec![0u8; 1024];
    let response = server.handle("127.0.0.1".parse().unwrap(), NtpTimestamp::from_fixed_int(100), &request, &mut big, &mut stats);
    let len = match response { ServerAction::Respond { message } => message.len(), ServerAction::Ignore => 0 };
    assert!(fits, "accepted request dropped: registered {:?}; answer needs {} bytes for an {}-byte request", reg, len, request.len());
}

// NTS variant: an authenticated NTPv4 request whose unique-identifier field is 4 bytes long
// (no value). The answer re-encodes that field with the 16-byte minimum, so it is 12 bytes
// longer than the request.
#[test]
fn f3_witness_nts_request_sized_buffer_does_not_suffice() {
    let config = ServerConfig {
        denylist: FilterList { filter: vec![], action: FilterAction::Deny },
        allowlist: FilterList { filter: vec!["0.0.0.0/0".parse().unwrap()], action: FilterAction::Ignore },
        rate_limiting_cutoff: Duration::from_secs(1),
        rate_limiting_cache_size: 0,
        require_nts: None,
        accepted_versions: vec![NtpVersion::V4],
    };
    let clock = TestClock { cur: NtpTimestamp::from_fixed_int(200) };
    let mut stats = TestStatHandler::default();
    let keyset = KeySetProvider::new(1).get();
    let mut server = Server::new_internal(config, clock, Arc::default(), keyset.clone());
    let decodedcookie = DecodedServerCookie {
        algorithm: AeadAlgorithm::AeadAesSivCmac256,
        s2c: Box::new(AesSivCmac256::new([0; 32].into())),
        c2s: Box::new(AesSivCmac256::new([0; 32].into())),
    };
    let cookie = keyset.encode_cookie(&decodedcookie);
    assert_eq!(cookie.len() % 4, 0);

    let (packet, _id) = NtpPacket::poll_message(PollIntervalLimits::default().min);
    let mut request = serialize_packet_unencrypted(&packet);
    request.extend_from_slice(&[0x01, 0x04, 0x00, 0x04]); // unique identifier, length 4
    request.extend_from_slice(&0x0204u16.to_be_bytes()); // NTS cookie
    request.extend_from_slice(&((4 + cookie.len()) as u16).to_be_bytes());
    request.extend_from_slice(&cookie);
    // authenticator over everything so far, empty plaintext
    let mut scratch = vec![0u8; 64];
    let res = decodedcookie.c2s.encrypt(&mut scratch, 0, &request).unwrap();
    assert_eq!((res.nonce_length, res.ciphertext_length), (16, 16));
    request.extend_from_slice(&0x0404u16.to_be_bytes());
    request.extend_from_slice(&((8 + 32) as u16).to_be_bytes());
    request.extend_from_slice(&16u16.to_be_bytes());
    request.extend_from_slice(&16u16.to_be_bytes());
    request.extend_from_slice(&scratch[..32]);

    let mut buf = vec![0u8; request.len()];
    let response = server.handle("127.0.0.1".parse().unwrap(), NtpTimestamp::from_fixed_int(100), &request, &mut buf, &mut stats);
    let reg = stats.last_register.take();
    let fits = matches!(response, ServerAction::Respond { .. });
    let mut big = vec![0u8; 1024];
    let response = server.handle("127.0.0.1".parse().unwrap(), NtpTimestamp::from_fixed_int(100), &request, &mut big, &mut stats);
    let len = match response { ServerAction::Respond { message } => message.len(), ServerAction::Ignore => 0 };
    assert!(fits, "accepted NTS request dropped: registered {:?}; answer needs {} bytes for a {}-byte request", reg, len, request.len());
}
