// Witnesses for the C27 defects fixed in /repo (append inside `mod tests` of ntp-proto/src/keyset.rs;
// `cargo test -p ntp-proto --lib c27_witness`). Both fail on the unfixed tree and pass on the fixed one.
#[test]
fn c27_witness_primary_equal_len_is_rejected_or_usable() {
    // header: time=0, id_offset=0, primary=1, len=1, followed by one 64-byte key
    let mut file = Vec::new();
    file.extend_from_slice(&0u64.to_be_bytes());
    file.extend_from_slice(&0u32.to_be_bytes());
    file.extend_from_slice(&1u32.to_be_bytes());
    file.extend_from_slice(&1u32.to_be_bytes());
    file.extend_from_slice(&[7u8; 64]);
    if let Ok((provider, _)) = KeySetProvider::load(&mut file.as_slice(), 1) {
        // a loaded key set must be able to issue a cookie without crashing
        let cookie = DecodedServerCookie {
            algorithm: AeadAlgorithm::AeadAesSivCmac256,
            s2c: Box::new(AesSivCmac256::new([0; 32].into())),
            c2s: Box::new(AesSivCmac256::new([0; 32].into())),
        };
        let _ = provider.get().encode_cookie(&cookie);
    }
}

#[test]
fn c27_witness_huge_timestamp_does_not_crash_load() {
    let mut file = Vec::new();
    file.extend_from_slice(&u64::MAX.to_be_bytes());
    file.extend_from_slice(&0u32.to_be_bytes());
    file.extend_from_slice(&0u32.to_be_bytes());
    file.extend_from_slice(&1u32.to_be_bytes());
    file.extend_from_slice(&[7u8; 64]);
    let _ = KeySetProvider::load(&mut file.as_slice(), 1);
}
