// Witness for the C39 defect fixed in /repo (append inside `mod tests` of ntpd/src/daemon/config/mod.rs;
// `cargo test -p ntpd --lib f4_witness`). Before the fix both documents were accepted: the per-direction form of a
// step threshold took any float, so `forward = -5.0` produced a negative threshold and `backward = nan` a threshold
// of zero seconds (NaN saturates to 0 in NtpDuration::from_seconds), while the single-number form rejects both.
#[test]
fn f4_witness_per_direction_threshold_rejects_negative_and_nan() {
    for doc in [
        "startup-step-panic-threshold = { forward = -5.0, backward = 20 }",
        "startup-step-panic-threshold = { forward = 10, backward = nan }",
        "single-step-panic-threshold = { forward = -1, backward = 1 }",
    ] {
        let config: Result<SynchronizationConfig, _> = toml::from_str(doc);
        assert!(config.is_err(), "accepted: {doc}");
    }
    // the documented forms still load
    let ok: SynchronizationConfig =
        toml::from_str(r#"startup-step-panic-threshold = { forward = "inf", backward = 0 }"#).unwrap();
    assert_eq!(ok.startup_step_panic_threshold.forward, None);
    assert_eq!(ok.startup_step_panic_threshold.backward, Some(NtpDuration::from_seconds(0.0)));
}
