// Witness for the C24 defect fixed in /repo (append inside `mod tests` of
// ntp-proto/src/packet/v5/extension_fields.rs; `cargo test -p ntp-proto --lib f6_witness`).
// A reference-id request with a 5-byte payload is accepted by the decoder (see the existing test
// test_reference_id_request_decode) but re-encoding it hit `assert_eq!(payload_len % 4, 0)`.
#[test]
fn f6_witness_decoded_request_can_be_encoded() {
    let req = ReferenceIdRequest::decode(&[0, 4, 0, 0, 0]).unwrap();
    let mut out = vec![];
    req.serialize(&mut out).unwrap();
    assert_eq!(out.len(), 12);
    assert_eq!(&out[2..4], &9u16.to_be_bytes());
    assert_eq!(ReferenceIdRequest::decode(&out[4..9]).unwrap(), req);
}
