// Witness for the C32 defects fixed in /repo (append inside `mod tests` of ntp-proto/src/time_types.rs;
// `cargo test -p ntp-proto --lib f7_witness`). Before the fix: negation/abs of the minimum duration and
// PollInterval(127).inc() overflowed (panic with overflow checks, wrap without), MIN / -1 panicked in every build.
#[test]
fn f7_witness_duration_ops_saturate() {
    let min = NtpDuration { duration: i64::MIN };
    assert_eq!((-min).duration, i64::MAX);
    assert_eq!(min.abs().duration, i64::MAX);
    assert_eq!((min / -1i64).duration, i64::MAX);
    let limits = PollIntervalLimits { min: PollInterval(-128), max: PollInterval(127) };
    assert_eq!(PollInterval(127).inc(limits), PollInterval(127));
    assert_eq!(PollInterval(-128).dec(limits), PollInterval(-128));
}
