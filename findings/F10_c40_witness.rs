// Witnesses for the two C40 defects fixed in /repo (append inside `mod tests` of ntpd/src/daemon/sock_source.rs;
// `cargo test -p ntpd --lib f10_witness f16_witness`).
//
// F10: a 40-byte sample with correct magic and pulse = 0 whose offset field is NaN / +inf was accepted by
// deserialize_sample and became a measurement (NaN -> offset 0 s, inf -> i64::MAX).
#[test]
fn f10_witness_non_finite_offset_is_rejected() {
    for bits in [f64::NAN, f64::INFINITY, f64::NEG_INFINITY] {
        let mut buf = [0u8; 40];
        buf[16..24].copy_from_slice(&bits.to_le_bytes());
        buf[36..40].copy_from_slice(&SOCK_MAGIC.to_le_bytes());
        assert!(deserialize_sample(Ok(40), buf).is_err(), "accepted offset {bits}");
    }
}

// F16: the receive buffer was exactly one sample long, so the kernel truncated a longer datagram to 40 bytes and recv
// reported size 40: a 48-byte datagram whose first 40 bytes look like a sample became a measurement although it does
// not have the exact sample size.
#[tokio::test]
async fn f16_witness_oversized_datagram_is_rejected() {
    let (msg_for_system_sender, _) = mpsc::channel(1);
    let index = ClockId::new();
    let clock = TestClock {};
    let controller = TimeSyncControllerWrapper::<KalmanClockController<_>>::new(
        clock.clone(),
        SynchronizationConfig::default(),
        AlgorithmConfig::default(),
    )
    .unwrap();
    let socket_path = std::env::temp_dir().join(format!("ntp-test-stream-{}", alloc_port()));
    let snapshots = Arc::new(RwLock::new(HashMap::new()));
    let handle = SockSourceTask::spawn(
        index,
        socket_path.clone(),
        clock,
        SourceChannels {
            msg_for_system_sender,
            source_snapshots: snapshots.clone(),
        },
        OneWaySource::new(controller.add_one_way_source(
            index,
            SourceConfig::default(),
            0.001,
            1e-3,
            None,
        )),
    );
    let sock = UnixDatagram::unbound().unwrap();
    sock.connect(&socket_path).unwrap();
    let mut buf = [0u8; 48];
    buf[16..24].copy_from_slice(&1.0f64.to_le_bytes());
    buf[36..40].copy_from_slice(&SOCK_MAGIC.to_le_bytes());
    sock.send(&buf).unwrap();
    tokio::time::sleep(std::time::Duration::from_millis(300)).await;
    let accepted = snapshots.read().unwrap().contains_key(&index);
    handle.abort();
    let _ = std::fs::remove_file(&socket_path);
    assert!(!accepted, "a 48-byte datagram was accepted as a sample");
}
