// Witness for the C28 defect fixed in /repo (append inside `mod tests` of ntp-proto/src/nts/mod.rs;
// `cargo test -p ntp-proto --lib f9_witness`). A client that offers only NTPv5 talks to a (misbehaving)
// key-exchange server that answers with NTPv4: the client must not adopt a protocol it did not offer.
#[tokio::test]
async fn f9_witness_client_rejects_protocol_it_did_not_offer() {
    let (client, server) = tokio::io::duplex(4096);

    let client = async move {
        let certificates = tls_utils::pemfile::certs(
            &mut include_bytes!("../../test-keys/testca.pem").as_slice(),
        )
        .collect::<Result<Arc<_>, _>>()
        .unwrap();
        let kex = KeyExchangeClient::new(&NtsClientConfig {
            certificates,
            protocol_version: ProtocolVersion::V5,
        })
        .unwrap();
        kex.exchange_keys(client, "localhost".into(), []).await
    };

    let server = async move {
        let certificate_chain = tls_utils::pemfile::certs(
            &mut include_bytes!("../../test-keys/end.fullchain.pem").as_slice(),
        )
        .collect::<Result<Vec<_>, _>>()
        .unwrap();
        let private_key = tls_utils::pemfile::private_key(
            &mut include_bytes!("../../test-keys/end.key").as_slice(),
        )
        .unwrap();
        let kex = KeyExchangeServer::new(NtsServerConfig {
            certificate_chain,
            private_key,
            accepted_versions: vec![NtpVersion::V4, NtpVersion::V5],
            server: None,
            port: None,
            pool_authentication_tokens: vec![],
        })
        .unwrap();
        let mut io = kex.acceptor.accept(server).await.unwrap();
        let _request = Request::parse(&mut io).await.unwrap();
        // answer with a protocol the client did not offer
        KeyExchangeResponse {
            protocol: NextProtocol::NTPv4,
            algorithm: AeadAlgorithm::AeadAesSivCmac512,
            cookies: vec![vec![1u8; 100].into()].into(),
            server: None,
            port: None,
            keep_alive: false,
        }
        .serialize(&mut io)
        .await
        .unwrap();
        io.shutdown().await.unwrap();
    };

    let (result, ()) = tokio::join!(client, server);
    assert!(
        result.is_err(),
        "client adopted protocol version {:?} although it only offered NTPv5",
        result.map(|r| r.protocol_version)
    );
}
