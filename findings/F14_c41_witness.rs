// Witness for the C41 defect fixed in /repo (append inside `mod tests` of statime-wire/src/common/tlv.rs;
// `cargo test -p statime-wire f14_witness`). A TLV set whose last TLV has an empty value (4 bytes: type + length 0)
// is built and serialised by the library, but TlvSet::deserialize rejected it (loop condition `len > 4`) and the
// iterator silently dropped it (`len <= 4`), although Tlv::deserialize itself accepts a 4-byte TLV.
#[test]
fn f14_witness_trailing_empty_tlv_round_trips() {
    let mut alloc = [0; 64];
    let mut builder = TlvSetBuilder::new(&mut alloc);
    builder
        .add(&Tlv {
            tlv_type: TlvType::PathTrace,
            value: (&b"ab"[..]).into(),
        })
        .unwrap();
    builder
        .add(&Tlv {
            tlv_type: TlvType::Pad,
            value: (&b""[..]).into(),
        })
        .unwrap();
    let set = builder.build();
    let mut wire = [0; 64];
    let n = set.serialize(&mut wire).unwrap();
    assert_eq!(n, 10);
    let parsed = TlvSet::deserialize(&wire[..n]).expect("serialised TLV set must parse back");
    assert_eq!(parsed, set);
    assert_eq!(parsed.tlvs().count(), 2);
    let last = parsed.tlvs().last().unwrap();
    assert_eq!(last.tlv_type, TlvType::Pad);
    assert!(last.value.is_empty());
    // truncated input is still rejected
    assert!(TlvSet::deserialize(&wire[..n - 1]).is_err());
}
