// Witness for a C19 violation (append inside `mod tests` of ntp-proto/src/packet/mod.rs;
// `cargo test -p ntp-proto --lib f17_witness`).
// An NTS-authenticated NTPv4 request that has no unique-identifier field and whose cookie is the 9th authenticated
// field: Server::handle decides ProvideTime; nts_timestamp_response scans only the first MAX_COOKIES (8) fields for
// cookies/placeholders and keeps only unique-identifier fields as authenticated, so both lists are empty and
// ExtensionFieldData::serialize writes no NTS authenticator at all: the time answer to an authenticated request goes
// out as a bare 48-byte header that the client cannot authenticate with the s2c key.
#[test]
fn f17_witness_nts_time_answer_is_always_authenticated() {
    use crate::server::{FilterAction, FilterList, Server, ServerAction, ServerConfig, ServerReason, ServerResponse, ServerStatHandler};

    #[derive(Default)]
    struct Stats(Vec<(u8, bool, ServerReason, ServerResponse)>);
    impl ServerStatHandler for Stats {
        fn register(&mut self, version: u8, nts: bool, reason: ServerReason, response: ServerResponse) {
            self.0.push((version, nts, reason, response));
        }
    }

    let config = ServerConfig {
        denylist: FilterList { filter: vec![], action: FilterAction::Deny },
        allowlist: FilterList { filter: vec!["0.0.0.0/0".parse().unwrap()], action: FilterAction::Ignore },
        rate_limiting_cutoff: std::time::Duration::from_millis(100),
        rate_limiting_cache_size: 0,
        require_nts: Some(FilterAction::Ignore),
        accepted_versions: vec![NtpVersion::V4],
    };
    let clock = TestClock { now: NtpTimestamp::from_fixed_int(200) };
    let keyset = KeySetProvider::new(1).get();
    let mut server = Server::new_internal(config, clock, std::sync::Arc::default(), keyset.clone());
    let decoded = DecodedServerCookie {
        algorithm: AeadAlgorithm::AeadAesSivCmac256,
        s2c: Box::new(AesSivCmac256::new([1; 32].into())),
        c2s: Box::new(AesSivCmac256::new([2; 32].into())),
    };
    let cookie = keyset.encode_cookie(&decoded);
    let (mut request, _id) = NtpPacket::nts_poll_message(&cookie, 1, PollIntervalLimits::default().min);
    // eight harmless unknown fields in front of the cookie, and no unique identifier
    let mut fields: Vec<ExtensionField> = (0..8u16)
        .map(|i| ExtensionField::Unknown { type_id: 0x4000 + i, data: vec![0u8; 16].into() })
        .collect();
    fields.push(ExtensionField::NtsCookie(cookie.clone().into()));
    request.efdata.authenticated = fields;

    let mut message = vec![0u8; 1024];
    let mut cursor = Cursor::new(message.as_mut_slice());
    request.serialize(&mut cursor, decoded.c2s.as_ref(), None).unwrap();
    let length = cursor.position() as usize;
    message.truncate(length);

    let mut buffer = vec![0u8; 1024];
    let mut stats = Stats::default();
    let response = server.handle("127.0.0.1".parse().unwrap(), NtpTimestamp::from_fixed_int(100), &message, &mut buffer, &mut stats);
    assert_eq!(stats.0, vec![(4, true, ServerReason::Policy, ServerResponse::ProvideTime)]);
    let ServerAction::Respond { message: answer } = response else { panic!("request was not answered") };
    let (parsed, _) = NtpPacket::deserialize(answer, decoded.s2c.as_ref()).unwrap();
    let authenticated = parsed.efdata.authenticated.len() + parsed.efdata.encrypted.len();
    assert!(
        answer.len() > 48 && authenticated > 0,
        "time answer to an authenticated NTS request carries no NTS authenticator: {} bytes, {} authenticated/encrypted fields",
        answer.len(),
        authenticated
    );
}
