#!/bin/sh
# Offline setup: build the mirfacts driver and warm the dependency cache / facts.
set -e
cd "$(dirname "$0")"
export CARGO_NET_OFFLINE=true
python3 - <<'PY'
import sys
sys.path.insert(0, '.')
from engine import facts
facts.build_driver()
d, info = facts.ensure_facts()
facts.load_raw(d)
print("setup ok:", d, info.get("build_s"))
PY
