"""Runner: `python3 -m engine.run Cxx [--tier quick|thorough] [--replay path]`."""
import importlib
import re
import json
import os
import sys
import time
import traceback

from . import core, facts

VERIF = facts.VERIF
EVID = os.path.join(VERIF, "evidence")
KNOWN = os.path.join(VERIF, "known_findings.json")


class Ctx:
    def __init__(self, prog, prop, tier):
        self.P = prog
        self.prop = prop
        self.tier = tier
        self.instances = []      # (rule, key, ok, detail)
        self.violations = []     # dict
        self.samples = []
        self.counts = {}
        self.notes = []
        self.assumptions = []
        self.rules_desc = {}
        self.obligations = 0
        self.discharged = 0
        self.cur_rule = None

    # -- rule bookkeeping ------------------------------------------------------
    def rule(self, rid, desc):
        self.cur_rule = rid
        self.rules_desc[rid] = desc
        self.counts.setdefault(rid, 0)

    def check(self, key, cond, msg, where=None, sample=None, found=None):
        """One rule instance: `key` is line-free (function + site descriptor)."""
        rid = self.cur_rule
        self.counts[rid] = self.counts.get(rid, 0) + 1
        self.instances.append((rid, key, bool(cond)))
        if sample is not None and len(self.samples) < 60:
            self.samples.append({"rule": rid, "instance": key, "ok": bool(cond), "observed": sample})
        elif len(self.samples) < 60:
            self.samples.append({"rule": rid, "instance": key, "ok": bool(cond)})
        if not cond:
            self.violations.append({
                "property": self.prop, "rule": rid, "key": "%s|%s" % (rid, key),
                "message": msg, "where": where, "found": found,
                "rule_text": self.rules_desc.get(rid),
            })
        return bool(cond)

    def guard(self, body, site, name, fact_pred, msg=None, key=None):
        """Instance: every path to `site` establishes a fact satisfying fact_pred."""
        ok = body.must_pass(site.bb, fact_pred)
        k = key or "%s|%s|guard:%s" % (body.npath, site_desc(body, site), name)
        return self.check(k, ok, msg or "site not guarded by `%s` on every path" % name,
                          where=site.where(),
                          sample={"guards": body.guard_strings(site.bb)[:14]},
                          found=body.guard_strings(site.bb))

    def floor(self, rid, n):
        got = self.counts.get(rid, 0)
        if got < n:
            self.violations.append({
                "property": self.prop, "rule": rid, "key": "%s|FLOOR" % rid,
                "message": "rule analysed %d instances, fewer than the %d confirmed by hand "
                           "(anchor drift; failing closed)" % (got, n),
                "where": None, "found": None, "rule_text": self.rules_desc.get(rid)})

    def note(self, s):
        self.notes.append(s)

    def assume(self, s):
        self.assumptions.append(s)


def site_desc(body, site):
    if site.kind in ('call', 'calldest'):
        fi = body.callee(site)
        nm = core.short_name(core.callee_name(fi)) if fi else '<indirect>'
        # ordinal among same-callee sites in this body (line-free key)
        same = [s for s in body.calls() if (body.callee(s) or {}).get('id') == (fi or {}).get('id')]
        ordn = [s.bb for s in same].index(site.bb) if site.bb in [s.bb for s in same] else 0
        return "call:%s#%d" % (nm, ordn)
    if site.kind == 'return':
        return "return"
    if site.kind == 'agg':
        rv = site.data['rv']
        nm = '%s::%s' % (rv['adt'].split('::')[-1], rv['variant'])
        same = [s.bb for s in body.aggregates('^' + re.escape(rv['adt']) + '$', rv['variant'])]
        return "agg:%s#%d" % (nm, same.index(site.bb) if site.bb in same else 0)
    if site.kind in ('assign', 'mutborrow'):
        pl = site.data['place']
        return "%s:%s" % (site.kind, place_desc(body, pl))
    return site.kind


def place_desc(body, pl):
    s = body.local_name(pl['l'])
    for p in pl['p']:
        if isinstance(p, dict) and 'f' in p:
            s += '.' + p['f']
        elif isinstance(p, dict) and 'dc' in p:
            s += ' as ' + p['dc']
    return s


def load_known():
    if not os.path.exists(KNOWN):
        return {"known": [], "fixed": []}
    with open(KNOWN) as f:
        return json.load(f)


def _run_rules(prog, prop, tier):
    """One Ctx per rule function of the property (with the floors of the rule ids it declared)."""
    mod = importlib.import_module("rules.%s" % prop)
    floors = getattr(mod, "FLOORS", {})
    parts = []
    for fn in mod.RULES:
        c = Ctx(prog, prop, tier)
        try:
            fn(c)
        except core.AnchorMissing as e:
            c.violations.append({
                "property": prop, "rule": c.cur_rule or fn.__name__,
                "key": "%s|ANCHOR-MISSING|%s" % (c.cur_rule or fn.__name__, e),
                "message": "anchor missing (failing closed): %s" % e,
                "where": None, "found": None, "rule_text": None})
        for rid in list(c.rules_desc):
            if rid in floors:
                c.floor(rid, floors[rid])
        parts.append(c)
    return parts


def _merge(prog, prop, tier, parts):
    ctx = Ctx(prog, prop, tier)
    for c in parts:
        ctx.instances.extend(c.instances)
        ctx.violations.extend(c.violations)
        ctx.samples.extend(c.samples)
        for k, v in c.counts.items():
            ctx.counts[k] = ctx.counts.get(k, 0) + v
        ctx.notes.extend(c.notes)
        ctx.assumptions.extend(x for x in c.assumptions if x not in ctx.assumptions)
        ctx.rules_desc.update(c.rules_desc)
        ctx.obligations += c.obligations
        ctx.discharged += c.discharged
    ctx.samples = ctx.samples[:60]
    mod = importlib.import_module("rules.%s" % prop)
    for rid, n in getattr(mod, "FLOORS", {}).items():
        if rid not in ctx.rules_desc:       # a rule that never got as far as declaring itself
            ctx.floor(rid, n)
    return ctx


def _evaluate_once(prog, prop, tier):
    return _merge(prog, prop, tier, _run_rules(prog, prop, tier))


def evaluate(prog, prop, tier="quick"):
    """Run the property's rules over a loaded program; returns the Ctx (violations, instances, ...).
    Every rule is evaluated on the functions as written. Only if some rule reports a violation that is not a listed known finding,
    the rules are evaluated once more on the inlined view (engine/inline.py: private, call-only helper functions that did not exist when the
    rules were written are spliced into their callers - a behaviour-preserving transformation). A rule that holds on either view holds
    for the program (each rule decides its own structural condition, and both views denote the same behaviour), so per rule the passing
    view is taken and a note says so; a rule that fails on both is reported as evaluated on the functions as written."""
    prog.asked = set()
    parts = _run_rules(prog, prop, tier)
    known = {k["key"] for k in load_known().get("known", []) if k["property"] == prop}
    bad = lambda c: [v for v in c.violations if v["key"] not in known]
    if not any(bad(c) for c in parts) or os.environ.get("VERIF_NO_INLINE"):
        return _merge(prog, prop, tier, parts)
    try:
        from . import inline
        raw2, inl = inline.inline_raw(prog, set(prog.asked) | inline.baseline_functions())
        if not inl:
            return _merge(prog, prop, tier, parts)
        prog2 = core.Program(raw2)
        parts2 = _run_rules(prog2, prop, tier)
    except Exception:
        return _merge(prog, prop, tier, parts)
    chosen, via = [], []
    for c1, c2 in zip(parts, parts2):
        if bad(c1) and not bad(c2):
            chosen.append(c2)
            via.append("%s (as written: %s)" % (", ".join(sorted(c2.rules_desc)) or "?", bad(c1)[0]["key"][:120]))
        else:
            chosen.append(c1)
    ctx = _merge(prog, prop, tier, chosen)
    if via:
        ctx.notes.append("decided on the inlined view (new private helpers spliced into their callers): %s; inlined: %s" % (
            "; ".join(via), sorted("%s <- %s" % (f.split("::", 1)[-1], ", ".join(x.split("::")[-1] for x in g)) for f, g in inl.items())[:12]))
    return ctx


def run_property(prop, tier="quick", seed=0, replay=None):
    t0 = time.time()
    os.makedirs(os.path.join(EVID, "replay"), exist_ok=True)
    checker_errors = []
    ctx = None
    info = {}
    selftests = None
    try:
        fdir, info = facts.ensure_facts()
        raw = facts.load_raw(fdir)
        prog = core.Program(raw)
        ctx = evaluate(prog, prop, tier)
    except facts.FactsError as e:
        checker_errors.append("facts: %s" % e)
    except Exception:
        checker_errors.append(traceback.format_exc())
    if tier == "thorough" and ctx is not None and not replay:
        from . import selftest
        selftests = selftest.run(prop)

    known = load_known()
    known_keys = {(k["property"], k["key"]): k for k in known.get("known", [])}
    viols = ctx.violations if ctx else []
    new = []
    knownhits = []
    for v in viols:
        k = (v["property"], v["key"])
        if k in known_keys:
            knownhits.append((v, known_keys[k]))
        else:
            new.append(v)
    if replay:
        want = json.load(open(replay)).get("key")
        new = [v for v in new if v["key"] == want]

    lines = []
    for v, k in knownhits:
        lines.append("KNOWN-FINDING: property=%s %s" % (prop, k.get("what", v["message"])))
    n = 0
    for v in new:
        n += 1
        rp = os.path.join(EVID, "replay", "%s-%d.json" % (prop, n))
        with open(rp, "w") as f:
            json.dump(v, f, indent=1)
        lines.append("VIOLATION property=%s replay=%s" % (prop, rp))
        lines.append("  rule=%s key=%s" % (v["rule"], v["key"]))
        lines.append("  %s%s" % (v["message"], (" @ " + v["where"]) if v.get("where") else ""))
    for e in checker_errors:
        n += 1
        rp = os.path.join(EVID, "replay", "%s-err%d.json" % (prop, n))
        with open(rp, "w") as f:
            json.dump({"property": prop, "key": "CHECKER-ERROR", "message": e}, f)
        lines.append("VIOLATION property=%s replay=%s" % (prop, rp))
        lines.append("  checker error (failing closed): %s" % e.strip().splitlines()[-1])
        sys.stderr.write(e + "\n")

    mod_doc = ""
    expl = ""
    nd = []
    if ctx:
        mod = sys.modules.get("rules.%s" % prop)
        expl = getattr(mod, "EXPLANATION", "") if mod else ""
        nd = list(getattr(mod, "NOT_DECIDED", [])) if mod else []
    distinct = len({(r, k) for (r, k, ok) in (ctx.instances if ctx else [])})
    ev = {
        "property_id": prop,
        "tier": tier,
        "seed": seed,
        "level": "other",
        "coverage": {
            "explanation": expl or "static rules over type-checked MIR (see rules/%s.py)" % prop,
            "evaluations": len(ctx.instances) if ctx else 0,
            "distinct_nontrivial": distinct,
            "rule": "each evaluation is one (rule, program site) pair found in /repo's current MIR; "
                    "distinct = distinct (rule, line-free site key); non-trivial = the anchor exists "
                    "and the rule had a structural condition to decide there",
            "samples": (ctx.samples[:40] if ctx else []),
            "rules": ctx.rules_desc if ctx else {},
            "instances_per_rule": ctx.counts if ctx else {},
            "obligations": ctx.obligations if ctx else 0,
            "discharged": ctx.discharged if ctx else 0,
            "checker_cmd": "./check %s --tier %s" % (prop, tier),
            "trusted_base": ["rustc nightly type checker + MIR construction", "mirfacts driver",
                             "engine/core.py", "std/external crate API contracts as listed in DESIGN.md 5.4"],
            "facts": info,
            "bodies_in_program": len(ctx.P.bodies) if ctx else 0,
            "notes": ctx.notes if ctx else [],
            "not_decided": nd,
            "known_findings_matched": [k.get("what") for _, k in knownhits],
            "selftests": selftests,
        },
        "assumptions": (ctx.assumptions if ctx else []) + ["clauses not decided: " + "; ".join(nd)] if nd else (ctx.assumptions if ctx else []),
        "wall_s": round(time.time() - t0, 2),
        "violations": len(new) + len(checker_errors),
    }
    os.makedirs(EVID, exist_ok=True)
    tmp = os.path.join(EVID, "%s.json.tmp%d" % (prop, os.getpid()))
    with open(tmp, "w") as f:
        json.dump(ev, f, indent=1)
    os.replace(tmp, os.path.join(EVID, "%s.json" % prop))
    for l in lines:
        print(l)
    for st in (selftests or []):
        print("SELFTEST %s %s: %s" % (prop, st["name"], st["status"]))
    print("%s: %d rule instances, %d violations, %d known findings, %.1fs" % (
        prop, len(ctx.instances) if ctx else 0, len(new) + len(checker_errors), len(knownhits), time.time() - t0))
    return 1 if (new or checker_errors) else 0


def main(argv):
    if len(argv) < 2:
        print("usage: check Cxx [--tier quick|thorough] [--replay path]")
        return 2
    prop = argv[1]
    tier = os.environ.get("VERIF_TIER", "quick")
    replay = None
    i = 2
    while i < len(argv):
        if argv[i] == "--tier":
            tier = argv[i + 1]
            i += 2
        elif argv[i] == "--replay":
            replay = argv[i + 1]
            i += 2
        else:
            i += 1
    seed = int(os.environ.get("VERIF_SEED", "0") or 0)
    sys.path.insert(0, VERIF)
    return run_property(prop, tier, seed, replay)


if __name__ == "__main__":
    sys.exit(main(sys.argv))
