"""PANIC engine: enumerate panic-capable constructs reachable from given roots in the
workspace call graph and discharge each by a recognised local proof or an audit entry."""
import json
import os
import re
from collections import defaultdict, deque

from .core import (CMP_NEG, CMP_SWAP, callee_name, expand, norm_path, short_name, strip_generics, subterms,
                   tstr, unlet, AnchorMissing)
from .rulelib import S, N, cmp_of, fact_s

WORKSPACE = ('ntp_proto', 'ntpd', 'statime_algo', 'statime_base', 'statime_csptp', 'statime_netptp', 'statime_wire')

TRUSTED_MACRO_CRATES = ('tracing', 'tracing_attributes', 'tracing_core', 'serde_derive', 'serde', 'tokio', 'tokio_macros',
                        'clap', 'thiserror')

# callee (normalised nominal or resolved path) regex -> kind
PANIC_CALLS = [
    # matched against norm_path() of the nominal and of the resolved callee
    (r'^core::panicking::(panic|panic_fmt|panic_display|panic_explicit|panic_nounwind|unreachable_display|panic_const::\w+)$', 'panic'),
    (r'^core::panicking::(assert_failed|assert_matches_failed)$', 'assert'),
    (r'^std::rt::(begin_panic|panic_fmt)$', 'panic'),
    (r'^core::option::Option::(unwrap|expect|unwrap_unchecked)$', 'unwrap'),
    (r'^core::result::Result::(unwrap|expect|unwrap_err|expect_err|unwrap_unchecked)$', 'unwrap'),
    (r'^core::ops::index::(Index::index|IndexMut::index_mut)$', 'index'),
    (r'^core::slice::(copy_from_slice|clone_from_slice|swap_with_slice)$', 'copy_len'),
    (r'^core::slice::(split_at|split_at_mut|copy_within|swap|rotate_left|rotate_right|chunks|chunks_exact|chunks_mut|chunks_exact_mut|windows|rchunks|rchunks_exact|as_chunks|select_nth_unstable|select_nth_unstable_by)$', 'slice_op'),
    (r'^core::str::split_at$', 'slice_op'),
    (r'^alloc::vec::Vec::(remove|insert|swap_remove|drain|split_off|splice|extend_from_within)$', 'vec_op'),
    (r'^arrayvec::arrayvec::ArrayVec::(remove|insert|swap_remove|drain|push|extend_from_slice|try_extend_from_slice)$', 'vec_op'),
    (r'^alloc::collections::vec_deque::VecDeque::(remove|insert|swap|drain|range|split_off)$', 'vec_op'),
    (r'^alloc::string::String::(remove|insert|insert_str|drain|split_off|replace_range)$', 'vec_op'),
    (r'^core::cell::RefCell::(borrow|borrow_mut)$', 'refcell'),
    (r'^core::time::Duration::(from_secs_f64|from_secs_f32|mul_f64|mul_f32|div_f64|div_f32|new)$', 'duration'),
    (r'^<core::time::Duration as core::ops::arith::(Add|Sub|Mul|Div|AddAssign|SubAssign|MulAssign|DivAssign)>::\w+$', 'duration'),
    (r'^<(std::time::Instant|std::time::SystemTime|tokio::time::instant::Instant) as core::ops::arith::(Add|Sub|AddAssign|SubAssign)>::\w+$', 'instant'),
    (r'^core::f(32|64)::clamp$', 'clamp'),
    (r'^core::cmp::Ord::clamp$', 'clamp'),
    (r'^rand::rng::Rng::(gen_range|gen_bool|gen_ratio)$', 'rng'),
    (r'^generic_array::GenericArray::(from_slice|from_mut_slice|clone_from_slice|from_exact_iter)$', 'generic_array'),
    (r'^core::iter::traits::iterator::Iterator::step_by$', 'slice_op'),
    (r'^core::num::(pow|isqrt|ilog2|ilog10|ilog|div_euclid|rem_euclid|next_power_of_two|div_ceil|next_multiple_of)$', 'int_op'),
    (r'^core::num::(abs)$', 'int_abs'),
    (r'^core::char::methods::(from_digit|to_digit)$', 'int_op'),
    (r'^std::process::(exit|abort)$', 'exit'),
]
PANIC_CALLS = [(re.compile(r), k) for r, k in PANIC_CALLS]

# int ops that only panic on overflow with overflow checks (debug profile): informational
DEBUG_ONLY_KINDS = {'int_abs'}


class PSite:
    __slots__ = ('body', 'bb', 'kind', 'desc', 'cdesc', 'line', 'data', 'callee')

    def __init__(self, body, bb, kind, desc, line, data, callee=None, cdesc=None):
        self.body = body
        self.bb = bb
        self.kind = kind
        self.desc = desc
        self.cdesc = cdesc if cdesc is not None else desc   # desc with the body's local variable names replaced by `$`
        self.line = line
        self.data = data
        self.callee = callee

    def where(self):
        return '%s:%s' % (self.body.file, self.line)

    def key(self):
        return (self.body.npath, self.kind, self.desc)

    def ckey(self):
        return (self.body.npath, self.kind, self.cdesc)


def local_name_re(body):
    """Regex matching the user-chosen local variable names visible in a body (its own named non-parameter locals and
    the variables it captures), as whole identifiers that are not field names, path segments or callees."""
    names = set()
    b = body
    raw = body.raw
    for i, l in enumerate(raw['locals']):
        if i > raw['arg_count'] and l.get('name') and l['name'] != 'self':
            names.add(l['name'])
    def walk(x):
        if isinstance(x, dict):
            f = x.get('f')
            if isinstance(f, str) and f.startswith('^'):
                root = f[1:].split('__')[0]
                if root != 'self':
                    names.add(root)
            for v in x.values():
                walk(v)
        elif isinstance(x, list):
            for v in x:
                walk(v)
    walk(raw['blocks'])
    if not names:
        return None
    return re.compile(r'(?<![\w.:$])(?:%s)(?![\w(]|::)' % '|'.join(sorted((re.escape(n) for n in names), key=len, reverse=True)))


def canon(rx, s):
    # compiler temporaries left unexpanded (loop-carried values) carry MIR local numbers that shift with any edit of the function
    s = re.sub(r'(?<![\w.:$])_\d+\b', '_t', s)
    # string literals are operands (a parsed literal is only valid as that literal): kept, and never subject to name replacement
    if rx is None:
        return s
    parts = re.split(r'("[^"]*")', s)
    return ''.join(p if i % 2 else rx.sub('$', p) for i, p in enumerate(parts))


def norm_try(t):
    """Normal form of `?`-style unwrapping, used only for the name-free audit descriptor: `(branch(ok_or(x, e)) as Continue).0`
    and `let Some(v) = x else { return Err(e) }` both become `(x as Some).0`; `(branch(x) as Continue).0` becomes `(x as Ok).0`."""
    if t is None or not isinstance(t, tuple):
        return t
    k = t[0]
    if k == 'field' and t[2] == '0':
        inner = t[1]
        if inner is not None and inner[0] == 'as' and inner[2] == 'Continue':
            c = inner[1]
            if c is not None and c[0] == 'call' and re.search(r'::branch$', c[1]) and len(c[2]) == 1:
                x = c[2][0]
                if x is not None and x[0] == 'call' and re.search(r'Option::ok_or(_else)?$', short_name(x[1])) and x[2]:
                    return ('field', ('as', norm_try(x[2][0]), 'Some'), '0')
                if x is not None and x[0] == 'call' and re.search(r'Result::map_err$', short_name(x[1])) and x[2]:
                    return ('field', ('as', norm_try(x[2][0]), 'Ok'), '0')
                return ('field', ('as', norm_try(x), 'Ok'), '0')
    if k == 'let':
        return norm_try(t[2])
    if k in ('field', 'as', 'cast', 'len'):
        return (k, norm_try(t[1])) + tuple(t[2:])
    if k == 'discr':
        return ('discr', norm_try(t[1]), t[2])
    if k == 'index':
        return ('index', norm_try(t[1]), norm_try(t[2]))
    if k == 'slice':
        return ('slice', norm_try(t[1])) + tuple(t[2:])
    if k == 'call':
        return ('call', t[1], tuple(norm_try(a) for a in t[2]), t[3])
    if k == 'binop':
        return ('binop', t[1], norm_try(t[2]), norm_try(t[3]))
    if k == 'unop':
        return ('unop', t[1], norm_try(t[2]))
    if k == 'agg':
        return ('agg', t[1], t[2], tuple((n, norm_try(a)) for n, a in t[3]))
    if k == 'phi':
        return ('phi', t[1], tuple(norm_try(a) for a in t[2]))
    return t


def trusted_macro(mac):
    if not mac:
        return False
    m = mac.strip(':')
    root = m.split('::')[0]
    return root in TRUSTED_MACRO_CRATES


def classify_call(fi):
    names = [norm_path(fi['def'])]
    if fi.get('rdef'):
        names.append(norm_path(fi['rdef']))
    # keep generics-stripped but also the raw qualified form for `<T as Trait>` matches
    raw = [strip_generics(fi['def'])]
    if fi.get('rdef'):
        raw.append(strip_generics(fi['rdef']))
    for rx, kind in PANIC_CALLS:
        for n in names + raw:
            if rx.search(n):
                return kind
    return None


def panic_sites(body):
    """All panic-capable constructs in a body (excluding trusted macro expansions)."""
    out = []
    reach = body.reachable_avoiding(None)
    rx = local_name_re(body)
    for j, blk in enumerate(body.blocks):
        if blk['cleanup'] or j not in reach:
            continue
        t = blk['term']
        if trusted_macro(t.get('mac')):
            continue
        if t['k'] == 'assert':
            msg = t['msg']
            if msg in ('ResumedAfterReturn', 'ResumedAfterPanic', 'ResumedAfterDrop', 'Misaligned', 'NullDeref', 'InvalidEnum'):
                continue
            ops = [S(body.operand_term(o)) for o in t['ops']]
            cops = [canon(rx, tstr(norm_try(expand(body.operand_term(o))))) for o in t['ops']]
            if msg == 'BoundsCheck':
                desc = 'BoundsCheck[%s < %s]' % (ops[1], ops[0])
                cdesc = 'BoundsCheck[%s < %s]' % (cops[1], cops[0])
            else:
                desc = '%s[%s]' % (msg, ', '.join(ops))
                cdesc = '%s[%s]' % (msg, ', '.join(cops))
            out.append(PSite(body, j, 'assert:' + msg, desc[:240], t['line'], t, cdesc=cdesc[:240]))
        elif t['k'] == 'call':
            f = t['func']
            if f['k'] == 'const' and 'fn' in f:
                fi = f['fn']
                kind = classify_call(fi)
                if kind is None:
                    continue
                args = [S(body.operand_term(a)) for a in t['args']]
                cargs = [canon(rx, tstr(norm_try(expand(body.operand_term(a))))) for a in t['args']]
                if re.search(r'::expect(_err)?$', fi['def']) and len(cargs) == 2 and cargs[1].startswith('"'):
                    cargs[1] = '"_"'        # the panic message of expect() is not part of the site's identity
                def fmt(args):
                    if kind in ('panic', 'assert'):
                        return '%s(%s)' % (short_name(fi['def']), (args[0] if args else '')[:100])
                    if kind == 'index':
                        return 'index %s[%s]' % (args[0][:100], args[1][:100] if len(args) > 1 else '')
                    return '%s(%s)' % (short_name(callee_name(fi)), ', '.join(a[:90] for a in args))
                out.append(PSite(body, j, kind, fmt(args)[:240], t['line'], t, fi, cdesc=fmt(cargs)[:240]))
    return out


# ---------------------------------------------------------------------------
# discharge

def _const_int(t):
    t = unlet(t)
    if t is not None and t[0] == 'const' and t[1] is not None:
        try:
            return int(t[1])
        except (ValueError, TypeError):
            return None
    if t is not None and t[0] == 'cast':
        return _const_int(t[1])
    return None


LEN_CALL = re.compile(r'(^|::)(len)$')


def len_base(t):
    """If t denotes `len(X)` return canonical string of X."""
    t = unlet(t)
    if t is None:
        return None
    if t[0] == 'len':
        return S(t[1])
    if t[0] == 'call' and LEN_CALL.search(t[1]) and len(t[2]) == 1:
        return S(t[2][0])
    if t[0] == 'cast':
        return len_base(t[1])
    return None


def lower_bounds(body, bb):
    """From dominating facts derive {base string: minimal len} and {term string: (lo, hi)} bounds."""
    lens = {}
    for (_, _, fs) in body.dominating_facts(bb):
        if len(fs) != 1:
            continue
        f = fs[0]
        c = cmp_of(f)
        if c is None:
            continue
        op, l, r = c
        for (o, a, b) in ((op, l, r), (CMP_SWAP[op], r, l)):
            base = len_base(a)
            k = _const_int(b)
            if base is None or k is None:
                continue
            if o == 'Ge':
                lens[base] = max(lens.get(base, 0), k)
            elif o == 'Gt':
                lens[base] = max(lens.get(base, 0), k + 1)
            elif o == 'Eq':
                lens[base] = max(lens.get(base, 0), k)
    return lens


def array_len_of_type(ty):
    m = re.search(r'\[[^\[\];]+; (\d+)\]$', ty.strip())
    if m:
        return int(m.group(1))
    m = re.match(r'^&?(mut )?\[.*; (\d+)\]$', ty.strip())
    if m:
        return int(m.group(2))
    return None


def static_len(body, op, depth=0):
    """Statically known length of a slice/array operand, else None."""
    if depth > 6:
        return None
    if op['k'] not in ('copy', 'move'):
        return None
    pl = op['place']
    n = array_len_of_type(pl['ty'])
    if n is not None:
        return n
    if pl['p'] and not all(p == '*' for p in pl['p']):
        return None
    ds = [d for d in body.defs().get(pl['l'], []) if d[2] != 'partial']
    if len(ds) != 1:
        return None
    j, i, kind, payload = ds[0]
    if kind == 'assign':
        rv = payload
        if rv['k'] in ('use', 'cast'):
            return static_len(body, rv['o'], depth + 1)
        if rv['k'] in ('ref', 'rawptr'):
            n = array_len_of_type(rv['place']['ty'])
            if n is not None:
                return n
            if all(p == '*' for p in rv['place']['p']):
                return static_len(body, {'k': 'copy', 'place': {'l': rv['place']['l'], 'p': [], 'ty': body.locals[rv['place']['l']]['ty']}}, depth + 1)
        return None
    if kind == 'call':
        f = payload['func']
        if f['k'] == 'const' and 'fn' in f:
            nm = norm_path(callee_name(f['fn']))
            if re.search(r'ops::index::(Index::index|IndexMut::index_mut)$', norm_path(f['fn']['def'])):
                rng = body.operand_term(payload['args'][1])
                w = range_width(rng)
                if w is not None:
                    return w
            if re.search(r'::(to_be_bytes|to_le_bytes|to_ne_bytes)$', nm):
                return array_len_of_type(payload['dest']['ty'])
            if re.search(r'(Deref::deref|DerefMut::deref_mut|AsRef::as_ref|as_slice|as_mut_slice|Borrow::borrow)$', nm):
                return static_len(body, payload['args'][0], depth + 1)
    return None


def range_width(rng):
    rng = unlet(rng)
    if rng is None or rng[0] != 'agg':
        return None
    name = rng[1].split('::')[-1]
    fields = dict(rng[3])
    if name == 'Range':
        a, b = _const_int(fields.get('start')), _const_int(fields.get('end'))
        if a is not None and b is not None and b >= a:
            return b - a
    if name == 'RangeTo':
        b = _const_int(fields.get('end'))
        return b
    return None


def range_bounds(rng):
    """(start, end, kind) of a range aggregate with constant bounds where known (None = unknown)."""
    rng = unlet(rng)
    if rng is None or rng[0] != 'agg':
        return None
    name = rng[1].split('::')[-1]
    fields = dict(rng[3])
    if name == 'Range':
        return (fields.get('start'), fields.get('end'), 'Range')
    if name == 'RangeTo':
        return (None, fields.get('end'), 'RangeTo')
    if name == 'RangeFrom':
        return (fields.get('start'), None, 'RangeFrom')
    if name == 'RangeFull':
        return (None, None, 'RangeFull')
    if name == 'RangeInclusive':
        return (fields.get('start'), fields.get('end'), 'RangeInclusive')
    if name == 'RangeToInclusive':
        return (None, fields.get('end'), 'RangeToInclusive')
    return None


def guarded_by(body, bb, pred):
    return body.must_pass(bb, pred)


def try_discharge(body, site):
    """Return a reason string when the construct provably cannot fire, else None."""
    t = site.data
    k = site.kind
    if k == 'assert:BoundsCheck':
        ln = body.operand_term(t['ops'][0])
        ix = body.operand_term(t['ops'][1])
        lc, ic = _const_int(ln), _const_int(ix)
        if lc is not None and ic is not None and 0 <= ic < lc:
            return 'constant index %d < constant length %d' % (ic, lc)
        uix = unlet(expand(ix))
        if uix is not None and uix[0] == 'binop' and uix[1] == 'Rem':
            m = _const_int(uix[3])
            if m is not None and lc is not None and 0 < m <= lc:
                return 'index is `x %% %d` with length %d' % (m, lc)
            if lc is not None and len_base(uix[3]) is not None:
                # x % len(A) where A is the fixed-size array being indexed
                return 'index is `x % len` of the indexed fixed-size array'
            if S(uix[3]) == S(ln):
                return 'index is `x % len` of the same length'
        if uix is not None and uix[0] == 'binop' and uix[1] == 'BitAnd':
            m = _const_int(uix[3])
            if m is not None and lc is not None and m < lc:
                return 'index masked with %d < length %d' % (m, lc)
        # dominating comparison index < len
        ixs, lns = S(ix), S(ln)

        def p(f):
            c = cmp_of(f)
            if not c:
                return False
            op, l, r = c
            return (op == 'Lt' and S(l) == ixs and S(r) == lns) or (op == 'Gt' and S(r) == ixs and S(l) == lns)
        if body.must_pass(site.bb, p):
            return 'dominated by index < len'
        if ic is not None:
            base = len_base(ln)
            if base is not None:
                lb = lower_bounds(body, site.bb).get(base)
                if lb is not None and ic < lb:
                    return 'constant index %d below dominating length bound %d' % (ic, lb)
        if lc is not None:
            # index of a small integer type
            pass
        return None
    if k in ('assert:DivisionByZero', 'assert:RemainderByZero'):
        # the divisor is the right operand of the following binop; the assert's operand is the dividend.
        # find the cond: `_c = Eq(divisor, 0)`
        cond = unlet(expand(body.operand_term(t['cond'])))
        div = None
        if cond is not None and cond[0] == 'binop' and cond[1] == 'Eq':
            div = cond[2]
        if div is not None:
            c = _const_int(div)
            if c is not None and c != 0:
                return 'constant non-zero divisor %d' % c
            ud = unlet(div)
            if ud is not None and (ud[0] == 'len' or (ud[0] == 'call' and LEN_CALL.search(ud[1]))):
                # length of a fixed-size array?
                arg = ud[1] if ud[0] == 'len' else (ud[2][0] if ud[2] else None)
                ty = _place_type_of_term(body, t, arg)
                if ty is not None and array_len_of_type(ty):
                    return 'divisor is the length of a fixed-size array'
                base = S(arg)
                lb = lower_bounds(body, site.bb).get(base)
                if lb:
                    return 'divisor len() has dominating lower bound %d' % lb
                if body.must_pass(site.bb, lambda f: f.kind == 'bool' and not f.pol and re.search(r'is_empty\(%s\)$' % re.escape(base), S(f.term)) is not None):
                    return 'dominated by !is_empty()'
            if ud is not None and ud[0] == 'call' and re.search(r'Ord::max$', ud[1]):
                if any((_const_int(a) or 0) > 0 for a in ud[2]):
                    return 'divisor is max(_, positive constant)'
            ds = S(div)

            def p(f):
                c = cmp_of(f)
                if not c:
                    return False
                op, l, r = c
                if S(l) == ds and _const_int(r) == 0 and op in ('Ne', 'Gt'):
                    return True
                if S(r) == ds and _const_int(l) == 0 and op in ('Ne', 'Lt'):
                    return True
                return False
            if body.must_pass(site.bb, p):
                return 'dominated by divisor != 0'
        return None
    if k == 'assert:Overflow':
        # only emitted for Div/Rem (MIN / -1) in the modelled build
        cond_ops = [unlet(expand(body.operand_term(o))) for o in t['ops']]
        if len(cond_ops) == 2:
            c = _const_int(cond_ops[1])
            if c is not None and c != -1:
                return 'constant divisor %d != -1' % c
            # unsigned types cannot overflow on division: type of operand
            ty = t['ops'][0].get('place', {}).get('ty') or t['ops'][0].get('ty')
            if ty and ty.startswith('u'):
                return 'unsigned division'
        return None
    if k == 'unwrap':
        arg = body.operand_term(t['args'][0])
        a = unlet(expand(arg))
        astr = S(arg)
        nm = norm_path(site.callee['def'])
        good = ['Some'] if 'Option' in nm else (['Err'] if nm.endswith(('unwrap_err', 'expect_err')) else ['Ok'])
        if body.must_pass(site.bb, lambda f: f.kind == 'is' and f.variants and set(f.variants) <= set(good) and S(f.term) == astr):
            return 'dominated by `%s is %s`' % (astr[:60], good[0])
        # try_into().unwrap() on a slice of statically known width equal to the target array
        if a is not None and a[0] == 'call' and re.search(r'(TryInto|TryFrom)>?::(try_into|try_from)$', a[1]):
            dty = t['dest']['ty']
            n = array_len_of_type(dty)
            if n is not None:
                # locate the try_into call to read its operand
                src_len = _try_into_src_len(body, t['args'][0])
                if src_len is not None and src_len == n:
                    return 'try_into() of a %d-byte slice into [_; %d]' % (src_len, n)
        # Some(..)/Ok(..) literal
        if a is not None and a[0] == 'agg' and a[2] in good:
            return 'unwrap of a literal %s' % a[2]
        # checked arithmetic / conversions on constants
        return None
    if k == 'index':
        base_op = t['args'][0]
        idx = body.operand_term(t['args'][1])
        base = body.operand_term(base_op)
        st = site.callee.get('self_ty', '')
        ic = _const_int(idx)
        slen = static_len(body, base_op)
        rb = range_bounds(idx)
        bstr = S(base)
        lb = lower_bounds(body, site.bb).get(bstr)
        if ic is not None:
            if slen is not None and ic < slen:
                return 'constant index %d into a %d-element array' % (ic, slen)
            if lb is not None and ic < lb:
                return 'constant index %d below dominating length bound %d' % (ic, lb)
            return None
        if rb is not None:
            s0, e0, kind = rb
            if kind == 'RangeFull':
                return 'full range'
            sc = _const_int(s0) if s0 is not None else 0
            ec = _const_int(e0) if e0 is not None else None
            have = slen if slen is not None else lb
            if kind in ('Range', 'RangeTo') and sc is not None and ec is not None and sc <= ec:
                if have is not None and ec <= have:
                    return 'constant range ..%d within known length %d' % (ec, have)
            if kind == 'RangeFrom' and sc is not None:
                if have is not None and sc <= have:
                    return 'constant range %d.. within known length >= %d' % (sc, have)
            # start.. / ..end compared against len by a dominating fact
            if kind == 'RangeFrom' and s0 is not None:
                ss = S(s0)

                def p(f):
                    c = cmp_of(f)
                    if not c:
                        return False
                    op, l, r = c
                    if len_base(r) == bstr and S(l) == ss and op in ('Le', 'Lt'):
                        return True
                    if len_base(l) == bstr and S(r) == ss and op in ('Ge', 'Gt'):
                        return True
                    return False
                if body.must_pass(site.bb, p):
                    return 'dominated by start <= len'
            if kind == 'RangeTo' and e0 is not None:
                es = S(e0)

                def p2(f):
                    c = cmp_of(f)
                    if not c:
                        return False
                    op, l, r = c
                    if len_base(r) == bstr and S(l) == es and op in ('Le', 'Lt'):
                        return True
                    if len_base(l) == bstr and S(r) == es and op in ('Ge', 'Gt'):
                        return True
                    return False
                if body.must_pass(site.bb, p2):
                    return 'dominated by end <= len'
                ue = unlet(expand(e0))
                if ue is not None and ue[0] == 'call' and re.search(r'Ord::min$', ue[1]) and any(len_base(x) == bstr for x in ue[2]):
                    return 'end is min(_, len)'
        return None
    if k == 'copy_len':
        a = static_len(body, t['args'][0])
        b = static_len(body, t['args'][1])
        if a is not None and b is not None and a == b:
            return 'both slices have static length %d' % a
        return None
    if k == 'clamp':
        args = [unlet(expand(body.operand_term(a))) for a in t['args']]
        if len(args) == 3:
            lo, hi = args[1], args[2]
            lc, hc = _const_float(lo), _const_float(hi)
            if lc is not None and hc is not None and lc <= hc:
                return 'constant clamp bounds %s <= %s' % (lc, hc)
        return None
    if k == 'rng':
        args = [unlet(expand(body.operand_term(a))) for a in t['args']]
        if len(args) >= 2:
            r = args[1]
            if r is not None and r[0] == 'call' and re.search(r'RangeInclusive::new$', r[1]):
                lo, hi = _const_float(r[2][0]), _const_float(r[2][1])
                if lo is not None and hi is not None and lo <= hi:
                    return 'constant non-empty range %s..=%s' % (lo, hi)
            if r is not None and r[0] == 'agg' and r[1].endswith('Range'):
                f = dict(r[3])
                lo, hi = _const_float(f.get('start')), _const_float(f.get('end'))
                if lo is not None and hi is not None and lo < hi:
                    return 'constant non-empty range %s..%s' % (lo, hi)
        return None
    if k == 'slice_op':
        nm = norm_path(callee_name(site.callee))
        if re.search(r'::(chunks|chunks_exact|chunks_mut|chunks_exact_mut|windows|rchunks|step_by)$', nm):
            c = _const_int(body.operand_term(t['args'][1]))
            if c is not None and c > 0:
                return 'constant non-zero chunk size %d' % c
        if re.search(r'::(split_at|split_at_mut)$', nm):
            c = _const_int(body.operand_term(t['args'][1]))
            slen = static_len(body, t['args'][0])
            lb = lower_bounds(body, site.bb).get(S(body.operand_term(t['args'][0])))
            have = slen if slen is not None else lb
            if c is not None and have is not None and c <= have:
                return 'constant split point %d within known length %d' % (c, have)
        return None
    if k == 'duration':
        nm = norm_path(callee_name(site.callee))
        if nm.endswith('Duration::new'):
            c = _const_int(body.operand_term(t['args'][1]))
            if c is not None and c < 1_000_000_000:
                return 'constant nanos < 1e9'
        if re.search(r'from_secs_f(64|32)$', nm):
            c = _const_float(body.operand_term(t['args'][0]))
            if c is not None and 0 <= c < 1e18:
                return 'constant non-negative finite seconds'
        return None
    return None


def _const_float(t):
    t = unlet(t)
    if t is None:
        return None
    if t[0] == 'const' and t[1] is not None:
        try:
            return float(t[1])
        except (ValueError, TypeError):
            return None
    if t[0] == 'unop' and t[1] == 'Neg':
        v = _const_float(t[2])
        return -v if v is not None else None
    if t[0] == 'cast':
        return _const_float(t[1])
    return None


def _place_type_of_term(body, term_site, arg):
    """Type string of the place denoted by a simple field path term (self.a.b), by scanning the
    body's statements for a place with the same rendering."""
    want = S(arg)
    for blk in body.blocks:
        for st in blk['stmts']:
            if st['k'] == 'assign' and st['rv']['k'] in ('ref', 'rawptr'):
                if S(body.place_term(st['rv']['place'])) == want:
                    return st['rv']['place']['ty']
    return None


def _try_into_src_len(body, op):
    """op is the operand holding the result of try_into(); find that call and its source length."""
    if op['k'] not in ('copy', 'move'):
        return None
    l = op['place']['l']
    for d in body.defs().get(l, []):
        if d[2] == 'call':
            call = d[3]
            if call['args']:
                return static_len(body, call['args'][0])
        if d[2] == 'assign' and d[3]['k'] == 'use':
            return _try_into_src_len(body, d[3]['o'])
    return None


# ---------------------------------------------------------------------------
# audit ledger

class Audit:
    def __init__(self, path):
        self.path = path
        self.entries = {}
        self.centries = {}
        self.used = defaultdict(int)
        if os.path.exists(path):
            with open(path) as f:
                data = json.load(f)
            for e in data.get('entries', []):
                self.entries[(e['fn'], e['kind'], e['desc'])] = e
                if e.get('cdesc'):
                    self.centries.setdefault((e['fn'], e['kind'], e['cdesc']), []).append(e)

    def lookup(self, site):
        # entries are matched on the name-free form of the expression (local variable names replaced by `$`), so that
        # renaming a local variable does not re-open an audited site; the readable form is kept for reports
        # several audited sites of one function may share a name-free form (e.g. two literals parsed alike): first entry with budget left
        e = None
        for c in self.centries.get(site.ckey(), []):
            if self.used[id(c)] < c.get('count', 1):
                e = c
                break
        if e is None:
            e = self.entries.get(site.key())
        if e is None:
            return None
        k = id(e)
        self.used[k] += 1
        if self.used[k] > e.get('count', 1):
            return None
        return e


# ---------------------------------------------------------------------------
# reachability with callback edges

def callback_edges(P):
    """type path -> method ids of hand-written (non-derived) impls of external traits."""
    m = defaultdict(list)
    for im in P.impls:
        if not im.get('trait_def') or im.get('derived'):
            continue
        tr = im['trait_def']
        if tr.split('::')[0] in WORKSPACE:
            continue
        ty = strip_generics(im['self_ty']).lstrip('&').strip()
        for it in im['items']:
            if it['id'] in P.bodies:
                m[ty].append(it['id'])
    return m


WS_TYPE_RE = re.compile(r'\b((?:%s)::[\w:]+)' % '|'.join(WORKSPACE))


def reachable(P, root_ids, stop=None, with_callbacks=True):
    g = P.callgraph()
    cb = callback_edges(P) if with_callbacks else {}
    par = {}
    q = deque()
    for r in root_ids:
        par[r] = (None, None)
        q.append(r)
    while q:
        x = q.popleft()
        nxt = list(g.get(x, []))
        if with_callbacks and x in P.bodies:
            b = P.bodies[x]
            for blk in b.blocks:
                if blk['cleanup']:
                    continue
                t = blk['term']
                if t['k'] != 'call' or t['func']['k'] != 'const' or 'fn' not in t['func']:
                    continue
                fi = t['func']['fn']
                tgt = fi.get('rid') or fi['id']
                if tgt in P.bodies:
                    continue
                if trusted_macro(t.get('mac')):
                    continue
                for ga in fi.get('gargs', []):
                    for ty in WS_TYPE_RE.findall(strip_generics(ga)):
                        for mid in cb.get(ty, []):
                            nxt.append((mid, t['line'], 'callback'))
        for (cid, line, kind) in nxt:
            if cid in par or cid not in P.bodies:
                continue
            if stop is not None and stop(cid):
                continue
            par[cid] = (x, line)
            q.append(cid)
    return par


def analyse(ctx, root_npaths, audit, stop_re=None, label=None, with_callbacks=True, root_regex=None):
    """Run the PANIC analysis for the given roots inside rule context `ctx` (ctx.rule must be set).
    Each reachable construct is one rule instance."""
    P = ctx.P
    roots = []
    for r in root_npaths:
        bs = [b for b in P.by_npath.get(r, []) if b.raw['promoted'] is None]
        if not bs:
            raise AnchorMissing('panic root not found: %s' % r)
        roots.extend(b.id for b in bs)
        # async fn: include the coroutine body
        for b in bs:
            for c in P.closures_of(b):
                if c.raw.get('coroutine'):
                    roots.append(c.id)
    if root_regex:
        roots.extend(b.id for b in P.bodies.values() if b.raw['promoted'] is None and re.search(root_regex, b.path) and b.id not in roots)
    stop = (lambda cid: re.search(stop_re, P.bodies[cid].npath) is not None) if stop_re else None
    par = reachable(P, roots, stop, with_callbacks)
    stats = {'bodies': 0, 'sites': 0, 'discharged': 0, 'audited': 0, 'unproven': 0, 'debug_only': 0}
    samples = []
    for bid in par:
        b = P.bodies[bid]
        if b.raw['promoted'] is not None:
            continue
        stats['bodies'] += 1
        for site in panic_sites(b):
            stats['sites'] += 1
            ctx.obligations += 1
            if site.kind in DEBUG_ONLY_KINDS:
                stats['debug_only'] += 1
                ctx.discharged += 1
                continue
            why = try_discharge(b, site)
            if why is not None:
                stats['discharged'] += 1
                ctx.discharged += 1
                if len(samples) < 12:
                    samples.append({'fn': b.npath, 'site': site.desc, 'discharged': why})
                ctx.check('%s|%s|%s' % (b.npath, site.kind, site.desc), True, '')
                continue
            e = audit.lookup(site)
            if e is not None:
                stats['audited'] += 1
                ctx.discharged += 1
                ctx.check('%s|%s|%s' % (b.npath, site.kind, site.desc), True, '', sample={'audited': e['reason']})
                continue
            stats['unproven'] += 1
            path = [P.bodies[x].npath for x in P.path_to(par, bid)]
            ctx.check('%s|%s|%s' % (b.npath, site.kind, site.desc), False,
                      'potential panic `%s` (%s) not discharged and not audited; reachable via %s' % (
                          site.desc, site.kind, ' -> '.join(short_name(p) for p in path[-6:])),
                      site.where(), sample={'path': path})
    ctx.note('PANIC %s: %s' % (label or ','.join(short_name(r) for r in root_npaths), stats))
    ctx.samples.extend({'rule': ctx.cur_rule, 'instance': 'discharge', 'ok': True, 'observed': s} for s in samples[:6])
    return stats, par


def property_rule(ctx, prop, rule_id, extra_text=''):
    """The PANIC rule of a property: roots and leaf patterns come from rules/panic_roots.py, audit from rules/panic_audit.json."""
    from rules.panic_roots import ROOTS, stop_regex
    spec = ROOTS[prop]
    ctx.rule(rule_id, 'PANIC: every panic-capable construct (bounds/division asserts, panic!/assert!/unreachable!, unwrap/expect, slice '
             'indexing and copy_from_slice/split_at/copy_within, Vec/ArrayVec remove/insert, Duration/Instant arithmetic, clamp, gen_range, '
             'GenericArray::from_slice) reachable in the workspace call graph from %s is discharged by a recognised local proof or by a '
             'reasoned entry of rules/panic_audit.json; anything else is reported with its call path. %s' % (', '.join(spec['roots']), extra_text))
    audit = Audit(os.path.join(os.path.dirname(os.path.dirname(os.path.abspath(__file__))), 'rules', 'panic_audit.json'))
    for pat, why in spec['stops']:
        ctx.assume('PANIC leaf %s: %s' % (pat, why))
    stats, par = analyse(ctx, spec['roots'], audit, stop_re=stop_regex(prop), label=prop, root_regex=spec.get('root_regex'))
    ctx.assume('external crates and std are leaves: callees not listed in the panic-capable table are assumed not to panic')
    ctx.assume('modelled build: overflow checks and debug assertions off (release profile); panic = abort')
    return stats
