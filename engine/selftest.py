"""Thorough tier: checker self-validation against known-bad variants of the *current* tree.

For a property, every stored mutant (a seeded change under /verif/seeded/*/patch.diff that this property's rules were
seen to catch, and every hand-written canary or fix-revert under /verif/selftest/<prop>/*.diff) is applied to a scratch
copy of /repo's working tree (outside /repo and /verif, removed afterwards), facts are extracted from the copy and the
property's rules are run on it. The rules must report at least one violation, and when the mutant records the keys that
fired when it was added, at least one of those keys must fire again.

This says nothing about /repo itself, so it never produces a VIOLATION line and never changes the exit code: the result
is printed as `SELFTEST <prop> <mutant>: detected|MISSED|skipped(...)` and recorded in the evidence file. `./selftest`
runs it for all properties and exits non-zero if any mutant is missed.
"""
import gc, json, os, shutil, subprocess, sys, tempfile

from . import facts, core

VERIF = os.path.dirname(os.path.dirname(os.path.abspath(__file__)))
SCRATCH_PARENT = os.environ.get("VERIF_SCRATCH", "/var/tmp")


def mutants(prop):
    out = []
    sd = os.path.join(VERIF, "seeded")
    if os.path.isdir(sd):
        for d in sorted(os.listdir(sd)):
            rp = os.path.join(sd, d, "result.json")
            pp = os.path.join(sd, d, "patch.diff")
            if not (os.path.isfile(rp) and os.path.isfile(pp)):
                continue
            try:
                r = json.load(open(rp))
            except ValueError:
                continue
            ent = r.get(prop)
            if isinstance(ent, dict) and ent.get("exit") == 1 and ent.get("fired"):
                keys = [f.split("key=", 1)[1] for f in ent["fired"] if "key=" in f]
                out.append({"name": "seeded/" + d, "patch": pp, "expect": keys})
    cd = os.path.join(VERIF, "selftest", prop)
    if os.path.isdir(cd):
        for f in sorted(os.listdir(cd)):
            if f.endswith(".diff"):
                exp = os.path.join(cd, f[:-5] + ".expect")
                keys = [l.strip() for l in open(exp)] if os.path.isfile(exp) else []
                out.append({"name": "selftest/%s/%s" % (prop, f[:-5]), "patch": os.path.join(cd, f), "expect": [k for k in keys if k]})
    # behaviour-preserving refactorings (renames, let introduction/inlining, if-let <-> match, added logging, comparison
    # orientation) produced by independent sub-agents: the rules must stay silent on them. A neutral patch is relevant to a
    # property when it touches one of the files the property is anchored in.
    nd = os.path.join(VERIF, "neutral")
    anchors = set(property_files(prop))
    if os.path.isdir(nd):
        for d in sorted(os.listdir(nd)):
            pp = os.path.join(nd, d, "patch.diff")
            if not os.path.isfile(pp):
                continue
            touched = {l.split(" b/", 1)[1].strip() for l in open(pp) if l.startswith("diff --git ") and " b/" in l}
            if touched & anchors:
                out.append({"name": "neutral/" + d, "patch": pp, "expect": [], "neutral": True})
    return out


def property_files(prop):
    try:
        for l in open(os.path.join(VERIF, "properties.jsonl")):
            p = json.loads(l)
            if p.get("id") == prop:
                return p.get("anchors", {}).get("files", [])
    except (OSError, ValueError):
        pass
    return []


def copy_tree(dst):
    src = facts.REPO
    for top in facts.MEMBERS + ["Cargo.toml", "Cargo.lock", "rust-toolchain.toml", ".cargo"]:
        p = os.path.join(src, top)
        if os.path.isdir(p):
            shutil.copytree(p, os.path.join(dst, top), ignore=shutil.ignore_patterns("target", ".git"), symlinks=True)
        elif os.path.isfile(p):
            shutil.copy2(p, os.path.join(dst, top))
    # everything else the manifests may reference (README/licence files named in Cargo.toml, docs include_str!)
    for f in os.listdir(src):
        p = os.path.join(src, f)
        if f in ("target", ".git") or os.path.exists(os.path.join(dst, f)):
            continue
        if os.path.isfile(p):
            shutil.copy2(p, os.path.join(dst, f))
        elif os.path.isdir(p):
            shutil.copytree(p, os.path.join(dst, f), ignore=shutil.ignore_patterns("target", ".git"), symlinks=True)


def run_one(prop, m):
    from . import run as runner
    scratch = tempfile.mkdtemp(prefix="verif-selftest-", dir=SCRATCH_PARENT)
    res = {"name": m["name"], "expect": m["expect"][:6]}
    try:
        copy_tree(scratch)
        r = subprocess.run(["git", "apply", "--whitespace=nowarn", m["patch"]], cwd=scratch, capture_output=True, text=True)
        if r.returncode != 0:
            r = subprocess.run(["patch", "-p1", "-s", "-f", "-i", m["patch"]], cwd=scratch, capture_output=True, text=True)
        if r.returncode != 0:
            res["status"] = "skipped(patch does not apply to the current tree)"
            return res
        try:
            fdir, _ = facts.ensure_facts(repo=scratch, quiet=True)
        except facts.FactsError as e:
            res["status"] = "skipped(variant does not build: %s)" % str(e).strip().splitlines()[-1][:120]
            return res
        prog = core.Program(facts.load_raw(fdir))
        ctx = runner.evaluate(prog, prop, "quick")
        fired = sorted({v["key"] for v in ctx.violations})
        res["fired"] = fired[:12]
        if m.get("neutral"):
            known = {(k["property"], k["key"]) for k in runner.load_known().get("known", [])}
            alarms = [k for k in fired if (prop, k) not in known]
            res["fired"] = alarms[:12]
            res["status"] = "silent" if not alarms else "FALSE-ALARM(%s)" % "; ".join(a[:80] for a in alarms[:3])
            return res
        if not fired:
            res["status"] = "MISSED"
        elif m["expect"] and not (set(fired) & set(m["expect"])):
            res["status"] = "detected(other keys)"
        else:
            res["status"] = "detected"
        return res
    except Exception as e:      # a crash of the rules on a mutant is a detection by failing closed, but say so
        res["status"] = "detected(checker error, failing closed: %s)" % (str(e)[:100])
        return res
    finally:
        shutil.rmtree(scratch, ignore_errors=True)
        prog = ctx = None       # Program <-> Body reference cycles: collect now, a variant's program is ~300 MB
        gc.collect()


def run(prop):
    return [run_one(prop, m) for m in mutants(prop)]


def main(argv):
    props = argv or sorted(f[:-3] for f in os.listdir(os.path.join(VERIF, "rules")) if f.startswith("C") and f.endswith(".py"))
    bad = 0
    for p in props:
        for st in run(p):
            print("SELFTEST %s %s: %s" % (p, st["name"], st["status"]))
            sys.stdout.flush()
            if st["status"].startswith("MISSED") or st["status"].startswith("FALSE-ALARM"):
                bad += 1
    return 1 if bad else 0


if __name__ == "__main__":
    sys.exit(main(sys.argv[1:]))
