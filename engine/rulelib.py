"""Helpers shared by the rule modules: fact matchers, operand matchers."""
import re

from .core import (CMP_NEG, CMP_SWAP, Fact, expand, find_calls, is_call, subterms, tstr, unlet,
                   AnchorMissing, norm_path, short_name)


def S(t):
    """Fully expanded canonical string of a term (let-names expanded)."""
    return tstr(expand(t))


def fact_call(name_re, pol=True, arg_res=None, names=False):
    """Fact: boolean call `name(...)` has polarity pol. arg_res: optional list of regexes
    (None = any) matched against the *expanded* argument strings."""
    def pred(f):
        if f.kind != 'bool' or f.pol != pol:
            return False
        t = unlet(f.term)
        if not is_call(t, name_re):
            return False
        if arg_res:
            args = t[2]
            for i, r in enumerate(arg_res):
                if r is None:
                    continue
                if i >= len(args) or not re.search(r, (tstr if names else S)(args[i])):
                    return False
        return True
    return pred


def fact_is(term_re, variants, names=False):
    """Fact: place/term (expanded string matches term_re) is one of `variants` (subset)."""
    vs = set([variants] if isinstance(variants, str) else variants)

    def pred(f):
        if f.kind != 'is':
            return False
        if not set(f.variants) <= vs or not f.variants:
            return False
        return re.search(term_re, (tstr if names else S)(f.term)) is not None
    return pred


def fact_ok(term_re):
    """`?`-style success: Try::branch(x) is Continue, or x is Ok/Some."""
    def pred(f):
        if f.kind != 'is' or not f.variants:
            return False
        s = S(f.term)
        if set(f.variants) <= {'Continue'}:
            return re.search(term_re, s) is not None
        if set(f.variants) <= {'Ok', 'Some'}:
            return re.search(term_re, s) is not None
        return False
    return pred


def cmp_of(f):
    """If fact is a (true) comparison return (op, lhs term, rhs term) else None."""
    if f.kind != 'bool':
        return None
    t = unlet(f.term)
    if t is None or t[0] != 'binop' or t[1] not in CMP_NEG:
        return None
    op = t[1]
    if not f.pol:
        op = CMP_NEG[op]
    return (op, t[2], t[3])


def fact_cmp(op, a_re, b_re, names=False):
    """Fact equivalent to `a op b` (either orientation), a/b matched on expanded strings."""
    def pred(f):
        c = cmp_of(f)
        if c is None:
            return False
        o, l, r = c
        ls, rs = (tstr if names else S)(l), (tstr if names else S)(r)
        if o == op and re.search(a_re, ls) and re.search(b_re, rs):
            return True
        if CMP_SWAP[o] == op and re.search(a_re, rs) and re.search(b_re, ls):
            return True
        return False
    return pred


def fact_str(regex):
    """Fact whose rendered string (expanded) matches regex. Polarity is part of the string
    ('!' prefix for negated booleans)."""
    def pred(f):
        return re.search(regex, fact_s(f)) is not None
    return pred


def fact_s(f):
    if f.kind == 'bool':
        return ('' if f.pol else '!') + S(f.term)
    if f.kind == 'is':
        return '%s is %s' % (S(f.term), '|'.join(f.variants))
    if f.kind == 'eq':
        return '%s in {%s}' % (S(f.term), ','.join(f.values))
    return '%s not in {%s}' % (S(f.term), ','.join(f.values))


def any_of(*preds):
    return lambda f: any(p(f) for p in preds)


def one(xs, what):
    xs = list(xs)
    if len(xs) != 1:
        raise AnchorMissing('expected exactly one %s, found %d' % (what, len(xs)))
    return xs[0]


def some(xs, what):
    xs = list(xs)
    if not xs:
        raise AnchorMissing('expected at least one %s, found none' % what)
    return xs


def const_int(t):
    t = unlet(t)
    if t is not None and t[0] == 'const' and t[1] is not None:
        try:
            return int(t[1])
        except ValueError:
            try:
                return float(t[1])
            except ValueError:
                return None
    return None


def self_writes(body, local=None):
    """Sites writing (assign / call destination / &mut borrow) through `self` (parameter 1, or in
    coroutine bodies the local named `self` that the captured receiver is moved into).
    Returns [(site, first field name)]."""
    out = []
    if local is None:
        locs = {i for i, l in enumerate(body.locals) if l.get('name') == 'self'} | {1}
    else:
        locs = {local}

    def first_field(pl):
        if pl['l'] not in locs:
            return None
        fields = [p['f'] for p in pl['p'] if isinstance(p, dict) and 'f' in p]
        if fields and fields[0].startswith('^'):
            # closure / coroutine body: `self` is a captured variable of the state object
            if fields[0] != '^self':
                return None
            fields = fields[1:]
        return fields[0] if fields else None
    for s in body.assigns(lambda pl: first_field(pl) is not None):
        pl = s.data['place'] if s.kind == 'assign' else s.data['dest']
        out.append((s, first_field(pl)))
    for j, b in enumerate(body.blocks):
        if b['cleanup']:
            continue
        for i, st in enumerate(b['stmts']):
            if st['k'] == 'assign' and st['rv']['k'] == 'ref' and st['rv']['bk'] == 'mut':
                ff = first_field(st['rv']['place'])
                if ff is not None:
                    from .core import Site
                    out.append((Site(body, j, i, 'mutborrow', st), ff))
    return out


def ret_assigns(body):
    """[(site, expanded string of the value)] for every assignment to the return place."""
    out = []
    for s in body.assigns(lambda pl: pl['l'] == 0 and not pl['p']):
        if s.kind == 'assign':
            out.append((s, S(body.rvalue_term(s.data['rv']))))
        else:
            out.append((s, S(body.call_term(s.data))))
    return out


def blocks_must_pass_block(body, target_bb, via_blocks):
    """True iff every path entry -> target_bb passes through one of via_blocks."""
    via = set(via_blocks)
    if target_bb in via:
        return True
    seen = body.reachable_avoiding(None, blocked_block=lambda x: x in via)
    if 0 in via:
        return True
    return target_bb not in seen


def region_after(body, fact_pred):
    """Blocks reachable from the targets of edges all of whose facts satisfy fact_pred.
    Returns (edge_count, set of blocks)."""
    starts = []
    for (s, d, fs) in body.edges():
        if fs and all(fact_pred(f) for f in fs):
            starts.append(d)
    seen = set()
    for st in starts:
        seen |= body.reachable_avoiding(None, start=st)
    return len(starts), seen


def field_inits(P, adt_re, field, bodies=None):
    """(body, site, term) for the operand initialising `field` in every struct literal of the ADT."""
    out = []
    for b in (bodies if bodies is not None else P.bodies.values()):
        if b.raw['promoted'] is not None:
            continue
        for s in b.aggregates(adt_re):
            rv = s.data['rv']
            if field in rv['fields']:
                i = rv['fields'].index(field)
                out.append((b, s, b.operand_term(rv['ops'][i])))
    return out


def written_value(body, site):
    """Expanded string of the value stored by an assign / call-destination site."""
    if site.kind in ('assign', 'agg'):
        return S(body.rvalue_term(site.data['rv']))
    if site.kind == 'calldest':
        return S(body.call_term(site.data))
    return None


def N(t):
    """String of a term with let-bound names kept (identity of a single computed value)."""
    return tstr(t)


def canon_cmp_str(s):
    """Canonical orientation of a printed comparison `(A op B)`: `>`/`>=` are rewritten as `<`/`<=` with swapped operands and
    the operands of `==`/`!=` are sorted, so that `a > b` and `b < a` compare equal. Other strings are returned unchanged."""
    if not (s.startswith('(') and s.endswith(')')):
        return s
    depth = 0
    for i, ch in enumerate(s):
        if ch in '([{':
            depth += 1
        elif ch in ')]}':
            depth -= 1
        elif depth == 1 and ch == ' ':
            for op in (' <= ', ' >= ', ' == ', ' != ', ' < ', ' > '):
                if s.startswith(op, i):
                    a, b = s[1:i], s[i + len(op):-1]
                    o = op.strip()
                    if o in ('>', '>='):
                        a, b, o = b, a, {'>': '<', '>=': '<='}[o]
                    elif o in ('==', '!=') and b < a:
                        a, b = b, a
                    return '(%s %s %s)' % (a, o, b)
    return s


def flag_locals(body):
    """User-declared bool locals that are assigned the constant `false` somewhere (mutable validity flags), found by
    type and use rather than by name: {local index: name}."""
    out = {}
    for i, l in enumerate(body.locals):
        if not (l.get('user') and l.get('name') and l['ty'] == 'bool'):
            continue
        sites = [s for s in body.assigns(lambda pl, i=i: not pl['p'] and pl['l'] == i)]
        if any(s.data.get('exp') for s in sites):
            continue        # a variable of a macro expansion (e.g. tracing's `enabled`), not one the function's author wrote
        vals = [written_value(body, s) for s in sites if s.kind == 'assign']
        if '0' in vals:
            out[i] = l['name']
    return out


def guards_S(body, bb):
    """Dominating facts of a block as expanded strings (no let-bound local names), one string per dominating edge."""
    return [' | '.join(fact_s(f) for f in fs) for (_, _, fs) in body.dominating_facts(bb)]


def root_local(body, operand, depth=0):
    """Index of the user-declared local that an operand is (a reference to / a re-borrow of / a slice of), following
    compiler temporaries; None if it cannot be traced. Identity of storage, independent of variable names."""
    if depth > 12 or not isinstance(operand, dict) or operand.get('k') not in ('copy', 'move'):
        return None
    l = operand['place']['l']
    loc = body.locals[l]
    if loc.get('user') and loc.get('name'):
        return l
    ds = [d for d in body.defs().get(l, []) if d[2] != 'partial']
    if len(ds) != 1:
        return None
    j, i, kind, payload = ds[0]
    if kind == 'assign':
        rv = payload
        if rv['k'] == 'ref' or rv['k'] == 'addr':
            pl = rv['place']
            pl_loc = body.locals[pl['l']]
            if pl_loc.get('user') and pl_loc.get('name'):
                return pl['l']
            return root_local(body, {'k': 'copy', 'place': {'l': pl['l'], 'p': [], 'ty': ''}}, depth + 1)
        if rv['k'] in ('use', 'cast') and 'o' in rv:
            return root_local(body, rv['o'], depth + 1)
        return None
    if kind in ('call', 'calldest'):
        t = body.blocks[j]['term']
        if t.get('args'):
            return root_local(body, t['args'][0], depth + 1)
    return None


def deref_writes(body):
    """Writes through a reference held in a local: [(site, target string, value string)],
    e.g. `*v.index_mut(i) = x` gives target `Vec::index_mut(v, i)`."""
    out = []
    for s in body.assigns(lambda pl: bool(pl['p']) and pl['p'][0] == '*'):
        pl = s.data['place'] if s.kind == 'assign' else s.data['dest']
        base = body.local_term(pl['l'])
        rest = {'l': pl['l'], 'p': pl['p'][1:], 'ty': pl['ty']}
        tgt = S(base)
        for p in rest['p']:
            if isinstance(p, dict) and 'f' in p:
                tgt += '.' + p['f']
        out.append((s, tgt, written_value(body, s)))
    return out


def user_closures(P, body):
    """Closures of `body` constructed outside logging-macro expansions."""
    ids = []
    for blk in body.blocks:
        if blk['cleanup']:
            continue
        for st in blk['stmts']:
            if st['k'] == 'assign' and st['rv']['k'] == 'agg' and st['rv'].get('ak') in ('closure', 'coroutine'):
                mac = (st.get('mac') or '').strip(':').split('::')[0]
                if mac in ('tracing', 'tracing_core', 'log'):
                    continue
                ids.append(st['rv']['id'])
    return [P.bodies[i] for i in ids if i in P.bodies]


def must_pass_block_from(body, start_bb, target_bb, via_blocks):
    """True iff every path start_bb -> target_bb passes through one of via_blocks."""
    via = set(via_blocks)
    if start_bb in via or target_bb in via:
        return True
    seen = body.reachable_avoiding(None, start=start_bb, blocked_block=lambda x: x in via)
    return target_bb not in seen


def edge_targets(body, fact_pred):
    """Destination blocks of edges all of whose facts satisfy fact_pred."""
    return [d for (s, d, fs) in body.edges() if fs and all(fact_pred(f) for f in fs)]


def decode_table(body, scrut_re=r'.'):
    """For a `match <int> { N => Variant, .. , _ => Default(x) }` function: ({N: value string}, [default value strings])."""
    table, default = {}, []
    for s, v in ret_assigns(body):
        eqs = [fs[0] for (_, _, fs) in body.dominating_facts(s.bb) if len(fs) == 1 and fs[0].kind == 'eq' and re.search(scrut_re, S(fs[0].term))]
        multi = [fs for (_, _, fs) in body.dominating_facts(s.bb) if len(fs) > 1 and all(f.kind == 'eq' and re.search(scrut_re, S(f.term)) for f in fs)]
        if eqs:
            for val in eqs[-1].values:
                table[int(val)] = v
        elif multi:
            for f in multi[-1]:
                for val in f.values:
                    table[int(val)] = v
        else:
            default.append(v)
    return table, default


def encode_table(body, scrut_re=r'^self$'):
    """For a `match self { Variant => N, .. }` function: {variant name: value string}."""
    table = {}
    for s, v in ret_assigns(body):
        for (_, _, fs) in body.dominating_facts(s.bb):
            if all(f.kind == 'is' and re.search(scrut_re, S(f.term)) for f in fs):
                for f in fs:
                    for var in f.variants:
                        table[var] = v
    return table


def decode_table_aggs(body, adt_re, scrut_re=r'.'):
    """{N: variant name} from the enum-variant literals of `adt_re` constructed under `scrutinee == N` edges."""
    table = {}
    for s in body.aggregates(adt_re):
        for (_, _, fs) in body.dominating_facts(s.bb):
            if all(f.kind == 'eq' and re.search(scrut_re, S(f.term)) for f in fs):
                for f in fs:
                    for val in f.values:
                        table[int(val)] = s.data['rv']['variant']
    return table
