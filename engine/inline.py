"""Inlined view of the program, consulted only when the evaluation of the functions as written reports a violation
(see run.evaluate_with_fallback).

Every workspace function gets the MIR of its *new private helpers* spliced in: callees that are statically resolved, not
closures/coroutines, not `pub`, referenced in the workspace only by direct calls (at most MAX_SITES of them), that did not exist
when the rules were written (rules/baseline_functions.json) and that no rule asked for by name during the evaluation as written
(`keep`). On a tree without new functions the view equals the program as written. Locals and blocks are appended, parameters are bound by
assignments, the callee's return place is aliased to the call's destination. A helper all of whose call sites were inlined is
removed from the view (its closures are re-parented to the caller), so who-may-call rules see the caller.

Inlining preserves behaviour, so a structural condition that holds on the inlined body holds for the program. The view exists
so that extracting a private helper out of an anchored function does not turn an intact property into an anchor/guard report.
Restricting it to non-`pub` helpers keeps who-may-call rules sound: every caller of such a helper is in the analysed workspace."""
import copy
from collections import Counter

from .core import norm_path

import json
import os

MAX_DEPTH = 3
MAX_SITES = 4
MAX_BLOCKS = 2500


def baseline_functions():
    p = os.path.join(os.path.dirname(os.path.dirname(os.path.abspath(__file__))), 'rules', 'baseline_functions.json')
    with open(p) as f:
        return set(json.load(f)['functions'])


def _shift(x, loff, alias0, owner):
    """Shift local indices in a statement/terminator/rvalue/operand tree (in place); tag promoted constants with their owner."""
    if isinstance(x, dict):
        if x.get('k') == 'const' and x.get('promoted') is not None and not x.get('powner'):
            x['powner'] = owner
        if 'l' in x and 'p' in x and isinstance(x['l'], int):
            if x['l'] == 0 and alias0 is not None:
                x['l'] = alias0
            else:
                x['l'] += loff
        if 'idx' in x and isinstance(x['idx'], int):
            x['idx'] += loff
        for v in x.values():
            _shift(v, loff, alias0, owner)
    elif isinstance(x, list):
        for v in x:
            _shift(v, loff, alias0, owner)


def _shift_term_blocks(t, boff):
    for k in ('t', 'imag', 'otherwise'):
        if isinstance(t.get(k), int):
            t[k] += boff
    if 'targets' in t:
        t['targets'] = [[v, b + boff] for v, b in t['targets']]


def inline_raw(prog, keep):
    """Returns (new raw dict, {caller id: [inlined callee ids]}). `prog`: core.Program of the facts as written; `keep`: normalised
    paths of functions the rules are anchored in (never inlined, never removed)."""
    raw = prog.raw
    byid = {}
    vis = {}
    for d in raw.values():
        for b in d['bodies']:
            if b['promoted'] is None:
                byid[b['id']] = b
        for f in d['fns']:
            vis[f['id']] = f.get('vis') or ''
    refs = {}
    for bid, es in prog.callgraph().items():
        for (cid, line, kind) in es:
            refs.setdefault(cid, Counter())[kind] += 1

    def eligible(fid, gid):
        g = byid.get(gid)
        if g is None or gid == fid or g.get('parent') or g.get('coroutine') or g.get('kind') not in ('Fn', 'AssocFn'):
            return False
        if norm_path(g['path']) in keep or not vis.get(gid, '').startswith('restricted'):
            return False
        r = refs.get(gid, Counter())
        return set(r) == {'call'} and r['call'] <= MAX_SITES

    done = {}
    inlined = {}
    site_count = Counter()

    def build(fid, stack):
        if fid in done:
            return done[fid]
        f = byid[fid]
        sites = []
        if len(stack) < MAX_DEPTH:
            for j, blk in enumerate(f['blocks']):
                t = blk['term']
                if blk['cleanup'] or t['k'] != 'call':
                    continue
                fn = t['func']
                if fn.get('k') != 'const' or 'fn' not in fn:
                    continue
                fi = fn['fn']
                gid = fi.get('rid') or fi['id']
                if fi.get('rkind') not in (None, 'item') or gid in stack or not eligible(fid, gid):
                    continue
                if len(t['args']) != byid[gid]['arg_count']:
                    continue
                sites.append((j, gid))
        if not sites:
            done[fid] = f
            return f
        nf = copy.deepcopy(f)
        got = []
        for j, gid in sites:
            g = build(gid, stack + (fid,))
            if len(nf['blocks']) + len(g['blocks']) > MAX_BLOCKS:
                continue
            t = nf['blocks'][j]['term']
            dest, target = t['dest'], t['t']
            alias0 = dest['l'] if not dest['p'] else None
            loff, boff = len(nf['locals']), len(nf['blocks'])
            for l in g['locals']:
                nf['locals'].append(dict(l))
            for gb in g['blocks']:
                nb = copy.deepcopy(gb)
                _shift(nb['stmts'], loff, alias0, gid)
                _shift(nb['term'], loff, alias0, gid)
                _shift_term_blocks(nb['term'], boff)
                if nb['term']['k'] == 'return':
                    ln = nb['term'].get('line')
                    if alias0 is None:
                        nb['stmts'].append({'k': 'assign', 'place': copy.deepcopy(dest), 'line': ln, 'exp': False, 'mac': None,
                                            'rv': {'k': 'use', 'o': {'k': 'move', 'place': {'l': loff, 'p': [], 'ty': g['locals'][0]['ty']}}}})
                    if target is None:
                        nb['term'] = {'k': 'unreachable', 'line': ln, 'exp': False, 'mac': None}
                    else:
                        nb['term'] = {'k': 'goto', 't': target, 'line': ln, 'exp': False, 'mac': None}
                nf['blocks'].append(nb)
            stmts = nf['blocks'][j]['stmts']
            for i, a in enumerate(t['args']):
                stmts.append({'k': 'assign', 'place': {'l': loff + 1 + i, 'p': [], 'ty': g['locals'][1 + i]['ty']}, 'rv': {'k': 'use', 'o': a},
                              'line': t.get('line'), 'exp': t.get('exp', False), 'mac': t.get('mac')})
            nf['blocks'][j]['term'] = {'k': 'goto', 't': boff, 'line': t.get('line'), 'exp': t.get('exp', False), 'mac': t.get('mac'),
                                       'inlined': gid}
            got.append(gid)
            site_count[gid] += 1
        if got:
            inlined[fid] = got
        done[fid] = nf
        return nf

    built = {bid: build(bid, ()) for bid in byid}
    # helpers whose every call site was inlined disappear from the view; their closures now belong to the (first) caller
    gone = {gid for gid, n in site_count.items() if n == refs[gid]['call']}
    new_parent = {}
    for fid, gs in inlined.items():
        if fid in gone:
            continue
        todo = list(gs)
        while todo:
            g = todo.pop()
            if g in gone:
                new_parent.setdefault(g, fid)
                todo.extend(inlined.get(g, []))
    out = {}
    for name, d in raw.items():
        nd = dict(d)
        nb = []
        for b in d['bodies']:
            if b['promoted'] is None and b['id'] in gone:
                continue        # (its promoted constants stay: inlined code still refers to them)
            nbody = built[b['id']] if b['promoted'] is None else b
            if nbody.get('parent') in new_parent:
                nbody = dict(nbody)
                nbody['parent'] = new_parent[nbody['parent']]
            nb.append(nbody)
        nd['bodies'] = nb
        out[name] = nd
    return out, {f: g for f, g in inlined.items() if f not in gone}
