"""Program model over mirfacts output: bodies, CFG, term recovery (FLOW),
edge facts and must-pass-through queries (GUARD), path counting (COUNT),
call graph / who-may-call / who-may-write (WHO)."""
import re
from collections import defaultdict, deque


class AnchorMissing(Exception):
    """A program entity a rule binds to does not exist (fail closed)."""


# ---------------------------------------------------------------------------
# names

def strip_generics(s):
    """Remove ::<...> generic argument lists and <...> after type names."""
    out = []
    depth = 0
    i = 0
    n = len(s)
    while i < n:
        c = s[i]
        if c == '<':
            # keep the qualified-path form `<T as Trait>` (starts a segment)
            if depth == 0 and (i == 0 or s[i - 1] in ' (,&[') and _is_qpath(s, i):
                j = _match(s, i)
                inner = s[i + 1:j]
                out.append('<' + strip_generics(inner) + '>')
                i = j + 1
                continue
            depth += 1
        elif c == '>' and depth > 0 and s[i - 1] != '-':
            depth -= 1
            i += 1
            continue
        if depth == 0:
            out.append(c)
        i += 1
    r = ''.join(out)
    while '::::' in r:
        r = r.replace('::::', '::')
    return r.replace(':: ', '::')


def _match(s, i):
    d = 0
    for j in range(i, len(s)):
        if s[j] == '<':
            d += 1
        elif s[j] == '>' and s[j - 1] != '-':
            d -= 1
            if d == 0:
                return j
    return len(s) - 1


def _is_qpath(s, i):
    j = _match(s, i)
    return ' as ' in s[i:j] or s[j + 1:j + 3] == '::'


def norm_path(s):
    """`a::B::<T>::m` -> `a::B::m`; `<a::T as b::Tr>::m` -> `<a::T as b::Tr>::m` (inner generics stripped)."""
    r = strip_generics(s)
    if r.endswith('::'):
        r = r[:-2]
    return r


def short_name(s):
    """Readable short callee name: `Type::method`."""
    r = norm_path(s)
    m = re.match(r'^<(.+?) as (.+?)>::(.+)$', r)
    if m:
        ty = m.group(1).split('::')[-1]
        return ty + '::' + m.group(3)
    parts = r.split('::')
    return '::'.join(parts[-2:]) if len(parts) >= 2 else r


# ---------------------------------------------------------------------------
# terms

CMP_TRAIT = {'lt': 'Lt', 'le': 'Le', 'gt': 'Gt', 'ge': 'Ge', 'eq': 'Eq', 'ne': 'Ne'}
CMP_SYM = {'Lt': '<', 'Le': '<=', 'Gt': '>', 'Ge': '>=', 'Eq': '==', 'Ne': '!='}
CMP_NEG = {'Lt': 'Ge', 'Le': 'Gt', 'Gt': 'Le', 'Ge': 'Lt', 'Eq': 'Ne', 'Ne': 'Eq'}
CMP_SWAP = {'Lt': 'Gt', 'Le': 'Ge', 'Gt': 'Lt', 'Ge': 'Le', 'Eq': 'Eq', 'Ne': 'Ne'}
BIN_SYM = {'Add': '+', 'Sub': '-', 'Mul': '*', 'Div': '/', 'Rem': '%', 'BitAnd': '&', 'BitOr': '|',
           'BitXor': '^', 'Shl': '<<', 'Shr': '>>', 'AddUnchecked': '+', 'SubUnchecked': '-',
           'AddWithOverflow': '+', 'SubWithOverflow': '-', 'MulWithOverflow': '*', 'Offset': 'offset'}
BIN_SYM.update(CMP_SYM)

# calls that are transparent for value identity in term rendering
TRANSPARENT_CALLS = {
    'core::ops::Deref::deref', 'core::ops::DerefMut::deref_mut', 'core::convert::AsRef::as_ref',
    'core::borrow::Borrow::borrow', 'core::convert::AsMut::as_mut',
    'core::borrow::BorrowMut::borrow_mut',
}


def tstr(t, depth=0):
    """Canonical string of a term."""
    if t is None:
        return '?'
    k = t[0]
    if depth > 28:
        return '…'
    d = depth + 1
    if k == 'param' or k == 'var' or k == 'let':
        return t[1]
    if k == 'const':
        if t[2]:
            return '%s=%s' % (t[2].split('::')[-1], t[1]) if t[1] is not None else t[2].split('::')[-1]
        return str(t[1])
    if k == 'fn':
        return 'fn:' + short_name(t[1])
    if k == 'field':
        return '%s.%s' % (tstr(t[1], d), t[2])
    if k == 'as':
        return '(%s as %s)' % (tstr(t[1], d), t[2])
    if k == 'index':
        return '%s[%s]' % (tstr(t[1], d), tstr(t[2], d))
    if k == 'slice':
        return '%s[%s..%s%s]' % (tstr(t[1], d), t[2], '-' if t[4] else '', t[3])
    if k == 'call':
        return '%s(%s)' % (short_name(t[1]), ', '.join(tstr(a, d) for a in t[2]))
    if k == 'binop':
        return '(%s %s %s)' % (tstr(t[2], d), BIN_SYM.get(t[1], t[1]), tstr(t[3], d))
    if k == 'unop':
        return '%s(%s)' % ({'Not': '!', 'Neg': '-'}.get(t[1], t[1]), tstr(t[2], d))
    if k == 'cast':
        return '(%s as %s)' % (tstr(t[1], d), t[2])
    if k == 'discr':
        return 'discr(%s)' % tstr(t[1], d)
    if k == 'agg':
        if t[1] in ('tuple', 'array'):
            return ('(%s)' if t[1] == 'tuple' else '[%s]') % ', '.join(tstr(a, d) for _, a in t[3])
        return '%s%s{%s}' % (t[1].split('::')[-1], ('::' + t[2]) if (t[2] and t[2] != t[1].split('::')[-1]) else '',
                             ', '.join('%s: %s' % (n, tstr(a, d)) for n, a in t[3]))
    if k == 'closure':
        return 'closure:%s' % t[1].split('::', 1)[-1]
    if k == 'phi':
        nm = '' if re.match(r'^_\d+(\.\w+)*$', t[1]) else t[1]
        return '%s{%s}' % (nm, ' | '.join(sorted(tstr(a, d) for a in t[2])))
    if k == 'repeat':
        return '[%s; %s]' % (tstr(t[1], d), t[2])
    if k == 'len':
        return 'len(%s)' % tstr(t[1], d)
    if k == 'resume':
        return 'resume'
    return '?%s' % k


def subterms(t):
    """Yield all subterms (pre-order)."""
    if t is None:
        return
    yield t
    k = t[0]
    if k == 'let':
        yield from subterms(t[2])
    elif k in ('field', 'as', 'cast', 'discr', 'len', 'repeat'):
        yield from subterms(t[1])
    elif k == 'index':
        yield from subterms(t[1])
        yield from subterms(t[2])
    elif k == 'slice':
        yield from subterms(t[1])
    elif k == 'call':
        for a in t[2]:
            yield from subterms(a)
    elif k == 'binop':
        yield from subterms(t[2])
        yield from subterms(t[3])
    elif k == 'unop':
        yield from subterms(t[2])
    elif k == 'agg':
        for _, a in t[3]:
            yield from subterms(a)
    elif k == 'phi':
        for a in t[2]:
            yield from subterms(a)


def unlet(t):
    """Strip `let` wrappers at the root."""
    while t is not None and t[0] == 'let':
        t = t[2]
    return t


def expand(t):
    """Fully expand let-bound names (deep)."""
    if t is None:
        return None
    k = t[0]
    if k == 'let':
        return expand(t[2])
    if k in ('field', 'as', 'cast', 'len'):
        return (k, expand(t[1])) + tuple(t[2:])
    if k == 'discr':
        return ('discr', expand(t[1]), t[2])
    if k == 'index':
        return ('index', expand(t[1]), expand(t[2]))
    if k == 'slice':
        return ('slice', expand(t[1])) + tuple(t[2:])
    if k == 'call':
        return ('call', t[1], tuple(expand(a) for a in t[2]), t[3])
    if k == 'binop':
        return ('binop', t[1], expand(t[2]), expand(t[3]))
    if k == 'unop':
        return ('unop', t[1], expand(t[2]))
    if k == 'agg':
        return ('agg', t[1], t[2], tuple((n, expand(a)) for n, a in t[3]))
    if k == 'phi':
        return ('phi', t[1], tuple(expand(a) for a in t[2]))
    return t


def is_call(t, name_re):
    t = unlet(t)
    return t is not None and t[0] == 'call' and re.search(name_re, t[1]) is not None


def find_calls(t, name_re):
    return [s for s in subterms(t) if is_call(s, name_re)]


# ---------------------------------------------------------------------------
# edge facts

class Fact:
    """A condition known to hold on a CFG edge.
    kind 'bool': term is pol;  kind 'is': place-term's variant in `variants`;
    kind 'eq': term == one of values; kind 'ne': term not in values."""
    __slots__ = ('kind', 'term', 'pol', 'variants', 'values', 'all_variants')

    def __init__(self, kind, term, pol=None, variants=None, values=None, all_variants=None):
        self.kind = kind
        self.term = term
        self.pol = pol
        self.variants = variants
        self.values = values
        self.all_variants = all_variants

    def s(self):
        if self.kind == 'bool':
            return ('' if self.pol else '!') + tstr(self.term)
        if self.kind == 'is':
            return '%s is %s' % (tstr(self.term), '|'.join(self.variants))
        if self.kind == 'eq':
            return '%s in {%s}' % (tstr(self.term), ','.join(self.values))
        return '%s not in {%s}' % (tstr(self.term), ','.join(self.values))

    def __repr__(self):
        return 'Fact(%s)' % self.s()


def normalize_bool(term, pol):
    """Push negation inward; canonicalise negated comparisons and is_some/is_ok style calls.
    `let` names are kept on the outermost term unless a rewrite happens."""
    orig = term
    term = unlet(term)
    changed = False
    while term is not None and term[0] == 'unop' and term[1] == 'Not':
        orig = term[2]
        term = unlet(term[2])
        pol = not pol
    if term is not None and term[0] == 'binop' and term[1] in CMP_NEG and not pol:
        term = ('binop', CMP_NEG[term[1]], term[2], term[3])
        pol = True
        changed = True
    if term is not None and term[0] == 'call':
        nm = term[1]
        last = nm.split('::')[-1]
        base = nm.rsplit('::', 1)[0]
        if base in ('core::option::Option', 'core::result::Result') and term[2]:
            m = {'is_some': ('Some', 'None'), 'is_none': ('None', 'Some'),
                 'is_ok': ('Ok', 'Err'), 'is_err': ('Err', 'Ok')}.get(last)
            if m:
                allv = ['Some', 'None'] if 'Option' in base else ['Ok', 'Err']
                return Fact('is', term[2][0], variants=[m[0] if pol else m[1]], all_variants=allv)
    return Fact('bool', term if changed else orig, pol=pol)


# ---------------------------------------------------------------------------
# bodies

class Site:
    __slots__ = ('body', 'bb', 'idx', 'kind', 'data')

    def __init__(self, body, bb, idx, kind, data):
        self.body = body
        self.bb = bb
        self.idx = idx  # statement index, or None for terminator
        self.kind = kind
        self.data = data

    @property
    def line(self):
        return self.data.get('line')

    def where(self):
        return '%s:%s' % (self.body.file, self.line)

    def __repr__(self):
        return 'Site(%s bb%d %s)' % (self.body.short, self.bb, self.kind)


class Body:
    def __init__(self, prog, raw):
        self.prog = prog
        self.raw = raw
        self.path = raw['path']
        self.npath = norm_path(raw['path'])
        self.id = raw['id']
        self.file = raw['file']
        self.line = raw['line']
        self.blocks = raw['blocks']
        self.locals = raw['locals']
        self.arg_count = raw['arg_count']
        self.krate = self.id.split('::', 1)[0]
        self._defs = None
        self._succ = None
        self._edges = None
        self._term_cache = {}
        self._reach = None

    @property
    def short(self):
        return short_name(self.path)

    def __repr__(self):
        return 'Body(%s)' % self.path

    # -- CFG ---------------------------------------------------------------
    def live_blocks(self):
        return [i for i, b in enumerate(self.blocks) if not b['cleanup']]

    def succ(self, i):
        if self._succ is None:
            self._succ = {}
            for j, b in enumerate(self.blocks):
                t = b['term']
                k = t['k']
                out = []
                if k == 'goto':
                    out = [t['t']]
                elif k == 'switch':
                    out = [x[1] for x in t['targets']] + [t['otherwise']]
                    cv = self._const_discr(t)
                    if cv is not None:
                        # literal discriminant (e.g. cfg!(debug_assertions)): only one target is feasible
                        hit = [x[1] for x in t['targets'] if x[0] == cv]
                        out = hit[:1] if hit else [t['otherwise']]
                elif k in ('call', 'assert', 'drop', 'yield'):
                    if t.get('t') is not None:
                        out = [t['t']]
                seen = []
                for o in out:
                    if o not in seen and not self.blocks[o]['cleanup']:
                        seen.append(o)
                self._succ[j] = seen
            # jump threading for `matches!`-style bool temporaries: a block that sets
            # `_t = const b` and falls through (empty goto blocks) into `switchInt(_t)`
            # continues directly at the switch target for b.
            for j, b in enumerate(self.blocks):
                if b['cleanup'] or b['term']['k'] != 'goto':
                    continue
                tgt = self._thread_target(j)
                if tgt is not None:
                    self._succ[j] = [tgt]
        return self._succ[i]

    def _const_discr(self, t):
        """Literal value of a switch discriminant (`if false`, cfg!(debug_assertions)), else None."""
        d = t['d']
        if d['k'] == 'const':
            return d.get('v') if ('name' not in d and d.get('v') is not None) else None
        if d['k'] in ('copy', 'move') and not d['place']['p']:
            ds = self.defs().get(d['place']['l'], [])
            if len(ds) == 1 and ds[0][2] == 'assign':
                rv = ds[0][3]
                if rv['k'] == 'use' and rv['o']['k'] == 'const' and 'name' not in rv['o'] and rv['o'].get('v') is not None \
                        and rv['o'].get('ty') == 'bool':
                    return rv['o']['v']
        return None

    def _thread_target(self, j):
        b = self.blocks[j]
        consts = {}
        for s in b['stmts']:
            if s['k'] == 'assign' and not s['place']['p']:
                rv = s['rv']
                if rv['k'] == 'use' and rv['o']['k'] == 'const' and rv['o'].get('ty') == 'bool' and rv['o'].get('v') in ('0', '1'):
                    consts[s['place']['l']] = rv['o']['v']
                else:
                    consts.pop(s['place']['l'], None)
        if not consts:
            return None
        cur = b['term']['t']
        for _ in range(4):
            w = self.blocks[cur]
            if w['cleanup']:
                return None
            if w['stmts']:
                return None
            t = w['term']
            if t['k'] == 'goto':
                cur = t['t']
                continue
            if t['k'] == 'switch' and t['d']['k'] in ('move', 'copy') and not t['d']['place']['p']:
                l = t['d']['place']['l']
                if l not in consts:
                    return None
                # every whole definition of the temp must be a bool constant
                for d in self.defs().get(l, []):
                    if d[2] != 'assign' or d[3]['k'] != 'use' or d[3]['o']['k'] != 'const':
                        return None
                v = consts[l]
                for val, dst in t['targets']:
                    if val == v:
                        return dst
                return t['otherwise']
            return None
        return None

    def edges(self):
        """List of (src, dst, [Fact...]) — the facts are a disjunction (several switch
        values leading to the same target)."""
        if self._edges is not None:
            return self._edges
        es = []
        for j, b in enumerate(self.blocks):
            if b['cleanup']:
                continue
            t = b['term']
            if t['k'] != 'switch' or self._const_discr(t) is not None:
                for o in self.succ(j):
                    es.append((j, o, None))
                continue
            mac = (t.get('mac') or '').strip(':').split('::')[0]
            if mac in ('tracing', 'tracing_core', 'log'):
                # logging-macro internals: branches carry no program condition
                for o in self.succ(j):
                    es.append((j, o, None))
                continue
            by_dst = defaultdict(list)
            order = []
            for val, dst in t['targets']:
                if dst not in order:
                    order.append(dst)
                by_dst[dst].append(val)
            oth = t['otherwise']
            if oth not in order:
                order.append(oth)
            listed = [v for v, _ in t['targets']]
            facts_for = self._switch_facts(j, t, listed)
            for dst in order:
                if self.blocks[dst]['cleanup']:
                    continue
                if self.blocks[dst]['term']['k'] == 'unreachable' and not self.blocks[dst]['stmts']:
                    continue
                fs = []
                for v in by_dst.get(dst, []):
                    fs.append(facts_for(v))
                if dst == oth:
                    fs.append(facts_for(None))
                es.append((j, dst, fs))
        self._edges = es
        return es

    def _switch_facts(self, j, t, listed):
        d = t['d']
        dty = t['dty']
        term = unlet(self.operand_term(d, (j, None)))
        variants = None
        place_term = None
        if term is not None and term[0] == 'discr':
            place_term = term[1]
            variants = term[2]

        def facts_for(v):
            if variants is not None:
                names = dict(variants)
                allv = [n for _, n in variants]
                if v is not None:
                    return Fact('is', place_term, variants=[names.get(v, '#' + v)], all_variants=allv)
                rest = [n for dv, n in variants if dv not in listed]
                return Fact('is', place_term, variants=rest, all_variants=allv)
            if dty == 'bool':
                if v is not None:
                    return normalize_bool(term, v != '0')
                # otherwise of a bool switch listing only 0 -> true
                return normalize_bool(term, '0' in listed)
            if v is not None:
                return Fact('eq', term, values=[v])
            return Fact('ne', term, values=list(listed))
        return facts_for

    # -- definitions ---------------------------------------------------------
    def defs(self):
        """local -> list of (bb, idx|None, kind, payload) for whole-local definitions;
        partial (projected) writes are recorded under kind 'partial'."""
        if self._defs is None:
            d = defaultdict(list)
            for j, b in enumerate(self.blocks):
                if b['cleanup']:
                    continue
                for i, s in enumerate(b['stmts']):
                    if s['k'] == 'assign':
                        pl = s['place']
                        if not pl['p']:
                            d[pl['l']].append((j, i, 'assign', s['rv']))
                        elif pl['p'][0] == '*' and not (1 <= pl['l'] <= self.arg_count and False):
                            pass  # write through a reference: the pointee changes, not the local
                        else:
                            d[pl['l']].append((j, i, 'partial', s))
                    elif s['k'] == 'setdiscr':
                        d[s['place']['l']].append((j, i, 'partial', s))
                t = b['term']
                if t['k'] == 'call':
                    pl = t['dest']
                    if not pl['p']:
                        d[pl['l']].append((j, None, 'call', t))
                    elif pl['p'][0] == '*':
                        pass
                    else:
                        d[pl['l']].append((j, None, 'partial', t))
                elif t['k'] == 'yield':
                    pl = t['resume_arg']
                    d[pl['l']].append((j, None, 'resume', t))
            self._defs = d
        return self._defs

    def local_name(self, l):
        n = self.locals[l].get('name')
        return n if n else '_%d' % l

    def capture_source(self, i):
        """Term (in the enclosing body) of the i-th captured variable at the place this closure is constructed."""
        if i is None:
            return None
        cache = self.__dict__.setdefault('_capsrc', {})
        if i in cache:
            return cache[i]
        cache[i] = None
        parent = self.prog.bodies.get(self.raw.get('parent'))
        if parent is None or parent is self:
            return None
        sites = []
        for blk in parent.blocks:
            if blk['cleanup']:
                continue
            for st in blk['stmts']:
                if st['k'] == 'assign' and st['rv']['k'] == 'agg' and st['rv'].get('ak') in ('closure', 'coroutine') and st['rv'].get('id') == self.id:
                    sites.append(st['rv'])
        if len(sites) == 1 and i < len(sites[0]['ops']):
            try:
                cache[i] = parent.operand_term(sites[0]['ops'][i])
            except RecursionError:
                cache[i] = None
        return cache[i]

    def local_term(self, l, stack=()):
        key = l
        if key in self._term_cache:
            return self._term_cache[key]
        if l in stack:
            return ('var', self.local_name(l))
        ds = [x for x in self.defs().get(l, [])]
        whole = [x for x in ds if x[2] != 'partial']
        partial = [x for x in ds if x[2] == 'partial']
        res = None
        if 1 <= l <= self.arg_count and not whole:
            res = ('param', self.local_name(l))
        elif len(whole) == 1 and not partial:
            res = self._def_term(whole[0], stack + (l,))
            if self.locals[l].get('name') and self.locals[l].get('user') and res is not None and res[0] not in ('param', 'const') \
                    and not (res[0] == 'let' and (res[1] == self.locals[l]['name'] or res[1] not in ('val', 'result', 'residual', '__awaitee', 'iter'))):
                res = ('let', self.locals[l]['name'], res)
        elif len(whole) == 0 and partial:
            # aggregate built field by field
            res = ('var', self.local_name(l))
        elif 2 <= len(whole) <= 6 and not partial:
            ts = []
            for w in whole:
                ts.append(self._def_term(w, stack + (l,)))
            uniq = []
            for t in ts:
                if t not in uniq:
                    uniq.append(t)
            if len(uniq) == 1:
                res = uniq[0]
            else:
                res = ('phi', self.local_name(l), tuple(uniq))
        else:
            res = ('var', self.local_name(l))
        if not stack:
            self._term_cache[key] = res
        return res

    def _def_term(self, d, stack):
        j, i, kind, payload = d
        if kind == 'assign':
            return self.rvalue_term(payload, stack)
        if kind == 'call':
            return self.call_term(payload, stack)
        if kind == 'resume':
            return ('resume',)
        return ('var', '?')

    def call_term(self, t, stack=()):
        f = t['func']
        args = tuple(self.operand_term(a, None, stack) for a in t['args'])
        if f['k'] == 'const' and 'fn' in f:
            fi = f['fn']
            name = callee_name(fi)
            nm = norm_path(name)
            last = nm.split('::')[-1]
            if fi.get('trait') in ('core::cmp::PartialOrd', 'core::cmp::PartialEq') and last in CMP_TRAIT and len(args) == 2:
                return ('binop', CMP_TRAIT[last], args[0], args[1])
            if norm_path(fi['def']) in TRANSPARENT_CALLS and len(args) == 1:
                return args[0]
            return ('call', nm, args, fi.get('rid') or fi['id'])
        return ('call', '<indirect>', (self.operand_term(f, None, stack),) + args, None)

    def rvalue_term(self, rv, stack=()):
        k = rv['k']
        if k == 'use':
            return self.operand_term(rv['o'], None, stack)
        if k in ('ref', 'rawptr'):
            return self.place_term(rv['place'], stack)
        if k == 'binop':
            lt = self.operand_term(rv['l'], None, stack)
            rt = self.operand_term(rv['r'], None, stack)
            # fold integer literal arithmetic (`4 + 2 + 16`)
            if rv['op'] in ('Add', 'Sub', 'Mul', 'Shl') and lt is not None and rt is not None and lt[0] == 'const' and rt[0] == 'const' \
                    and lt[2] is None and rt[2] is None:
                try:
                    a, b2 = int(lt[1]), int(rt[1])
                    return ('const', str({'Add': a + b2, 'Sub': a - b2, 'Mul': a * b2, 'Shl': a << (b2 if 0 <= b2 < 128 else 0)}[rv['op']]), None)
                except (ValueError, TypeError):
                    pass
            return ('binop', rv['op'], lt, rt)
        if k == 'unop':
            if rv['op'] == 'PtrMetadata':
                return ('len', self.operand_term(rv['o'], None, stack))
            return ('unop', rv['op'], self.operand_term(rv['o'], None, stack))
        if k == 'cast':
            inner = self.operand_term(rv['o'], None, stack)
            ck = rv['ck']
            if 'Unsize' in ck or 'PointerCoercion' in ck or 'PtrToPtr' in ck:
                return inner
            return ('cast', inner, rv['ty'])
        if k == 'discr':
            return ('discr', self.place_term(rv['place'], stack), tuple(tuple(v) for v in rv['variants']))
        if k == 'agg':
            ak = rv['ak']
            ops = [self.operand_term(o, None, stack) for o in rv['ops']]
            if ak == 'adt':
                return ('agg', rv['adt'], rv['variant'], tuple(zip(rv['fields'], ops)))
            if ak in ('closure', 'coroutine', 'coroutine_closure'):
                return ('closure', rv['id'], tuple(zip(rv.get('fields', []), ops)))
            return ('agg', ak, None, tuple((str(i), o) for i, o in enumerate(ops)))
        if k == 'repeat':
            return ('repeat', self.operand_term(rv['o'], None, stack), rv['n'])
        return ('var', '?' + k)

    def operand_term(self, o, at=None, stack=()):
        k = o['k']
        if k == 'const':
            if 'fn' in o:
                return ('fn', callee_name(o['fn']), o['fn'].get('rid') or o['fn']['id'])
            if o.get('promoted') is not None:
                # `powner`: set by the inlined view for constants promoted out of a spliced-in helper
                pb = self.prog.bodies.get('%s::{promoted#%d}' % (o.get('powner') or self.id, o['promoted']))
                if pb is not None and pb is not self:
                    try:
                        return pb.local_term(0)
                    except RecursionError:
                        pass
            v = o.get('v')
            if v is None:
                v = o.get('repr')
                if v is not None and v.startswith('const '):
                    v = v[6:]
            return ('const', v, o.get('name'))
        if k in ('copy', 'move'):
            return self.place_term(o['place'], stack)
        return ('var', '?op')

    def place_term(self, pl, stack=()):
        base = self.local_term(pl['l'], stack)
        for pr in pl['p']:
            if pr == '*':
                continue
            if isinstance(pr, str):
                continue
            if 'f' in pr:
                fname = pr['f']
                if fname.startswith('^'):
                    # closure capture: the captured variable by name, bound (as a `let`) to the value it has in the
                    # enclosing body where the closure is built, so that expanded forms do not depend on its name
                    nm = fname[1:].replace('__', '.')
                    base = ('var', nm)
                    src = self.capture_source(pr.get('i')) if '__' not in fname else None
                    if src is not None and unlet(src) != base and unlet(src) != ('param', nm):
                        base = ('let', nm, src)
                    elif src is not None and unlet(src) == ('param', nm):
                        base = ('param', nm)
                    continue
                # projection of an aggregate literal -> the operand
                ub = unlet(base)
                if ub is not None and ub[0] == 'agg' and ub[1] not in ('array',):
                    hit = [a for n, a in ub[3] if n == fname]
                    if hit:
                        base = hit[0]
                        continue
                if ub is not None and ub[0] == 'phi':
                    # field of a value that is one of several struct/tuple literals
                    alts = []
                    for alt in ub[2]:
                        ua = unlet(alt)
                        hit = [a for n, a in ua[3] if n == fname] if (ua is not None and ua[0] == 'agg' and ua[1] != 'array') else []
                        if not hit:
                            alts = None
                            break
                        if hit[0] not in alts:
                            alts.append(hit[0])
                    if alts:
                        base = alts[0] if len(alts) == 1 else ('phi', ub[1] + '.' + fname, tuple(alts))
                        continue
                base = ('field', base, fname)
            elif 'dc' in pr:
                base = ('as', base, pr['dc'])
            elif 'idx' in pr:
                base = ('index', base, self.local_term(pr['idx'], stack))
            elif 'cidx' in pr:
                base = ('index', base, ('const', ('-' if pr['from_end'] else '') + str(pr['cidx']), None))
            elif 'sub_from' in pr:
                base = ('slice', base, pr['sub_from'], pr['sub_to'], pr['from_end'])
        return base

    # -- sites ---------------------------------------------------------------
    def calls(self, name_re=None, include_expansion=True):
        """All call terminators whose callee (resolved or nominal) matches."""
        out = []
        for j, b in enumerate(self.blocks):
            if b['cleanup']:
                continue
            t = b['term']
            if t['k'] != 'call':
                continue
            f = t['func']
            if f['k'] == 'const' and 'fn' in f:
                fi = f['fn']
                names = [norm_path(fi['def'])]
                if fi.get('rdef'):
                    names.append(norm_path(fi['rdef']))
            else:
                names = ['<indirect>']
            if name_re is None or any(re.search(name_re, n) for n in names):
                if not include_expansion and t.get('exp'):
                    continue
                out.append(Site(self, j, None, 'call', t))
        return out

    def call_args(self, site):
        return [self.operand_term(a) for a in site.data['args']]

    def callee(self, site):
        f = site.data['func']
        if f['k'] == 'const' and 'fn' in f:
            return f['fn']
        return None

    def assigns(self, pred=None):
        """All assignment statements (and call destinations) as sites; pred(place) filters."""
        out = []
        for j, b in enumerate(self.blocks):
            if b['cleanup']:
                continue
            for i, s in enumerate(b['stmts']):
                if s['k'] == 'assign' and (pred is None or pred(s['place'])):
                    out.append(Site(self, j, i, 'assign', s))
            t = b['term']
            if t['k'] == 'call' and (pred is None or pred(t['dest'])):
                out.append(Site(self, j, None, 'calldest', t))
        return out

    def field_writes(self, field, of=None):
        """Sites that write (assign / take &mut of / call-dest) a place whose last field
        projection is `field` (optionally of ADT matching regex `of`)."""
        def pred(pl):
            fs = [p for p in pl['p'] if isinstance(p, dict) and 'f' in p]
            if not fs:
                return False
            # the written place is the field itself or a sub-place of it
            for p in fs:
                if p['f'] == field and (of is None or (p.get('of') and re.search(of, p['of']))):
                    return True
            return False
        out = self.assigns(pred)
        for j, b in enumerate(self.blocks):
            if b['cleanup']:
                continue
            for i, s in enumerate(b['stmts']):
                if s['k'] == 'assign' and s['rv']['k'] == 'ref' and s['rv']['bk'] == 'mut' and pred(s['rv']['place']):
                    out.append(Site(self, j, i, 'mutborrow', s))
        return out

    def returns(self):
        return [Site(self, j, None, 'return', b['term']) for j, b in enumerate(self.blocks)
                if not b['cleanup'] and b['term']['k'] == 'return']

    def aggregates(self, adt_re, variant=None):
        out = []
        for j, b in enumerate(self.blocks):
            if b['cleanup']:
                continue
            for i, s in enumerate(b['stmts']):
                if s['k'] == 'assign' and s['rv']['k'] == 'agg' and s['rv'].get('ak') == 'adt':
                    if re.search(adt_re, s['rv']['adt']) and (variant is None or s['rv']['variant'] == variant):
                        out.append(Site(self, j, i, 'agg', s))
        return out

    # -- GUARD ---------------------------------------------------------------
    def reachable_avoiding(self, blocked_edge, start=0, blocked_block=None):
        """Blocks reachable from start when edges for which blocked_edge(src,dst,facts) is
        true are removed."""
        adj = defaultdict(list)
        for (s, d, fs) in self.edges():
            if blocked_edge is not None and blocked_edge(s, d, fs):
                continue
            adj[s].append(d)
        seen = {start}
        q = deque([start])
        while q:
            x = q.popleft()
            if blocked_block is not None and blocked_block(x) and x != start:
                continue
            for y in adj[x]:
                if y not in seen:
                    seen.add(y)
                    q.append(y)
        return seen

    def must_pass(self, bb, fact_pred):
        """True iff every path entry -> bb takes an edge all of whose disjunct facts satisfy
        fact_pred (i.e. the condition is established on the way)."""
        def blocked(s, d, fs):
            return fs is not None and len(fs) > 0 and all(fact_pred(f) for f in fs)
        return bb not in self.reachable_avoiding(blocked)

    def dominating_facts(self, bb):
        """Facts of single edges every path to bb must take (for evidence/diagnostics)."""
        out = []
        base = self.reachable_avoiding(None)
        if bb not in base:
            return out
        for (s, d, fs) in self.edges():
            if not fs:
                continue
            def blocked(s2, d2, fs2, s=s, d=d):
                return s2 == s and d2 == d
            if bb not in self.reachable_avoiding(blocked):
                out.append((s, d, fs))
        return out

    def guard_strings(self, bb):
        return [' | '.join(f.s() for f in fs) for (_, _, fs) in self.dominating_facts(bb)]

    def must_reach_before_exit(self, bb, target_block_pred, after_idx=None):
        """True iff every path from bb to a Return passes a block satisfying target_block_pred."""
        seen = self.reachable_avoiding(None, start=bb, blocked_block=target_block_pred)
        for x in seen:
            if target_block_pred(x) and x != bb:
                continue
            if self.blocks[x]['term']['k'] == 'return':
                return False
        return True

    def can_reach(self, src, dst):
        return dst in self.reachable_avoiding(None, start=src)

    # -- path-sensitive reachability on one enum-typed local -------------------------
    def _is_local_term(self, t, name):
        t0 = t
        while t0 is not None and t0[0] == 'let' and t0[1] != name:
            t0 = t0[2]
        return t0 is not None and t0[0] in ('phi', 'let', 'var', 'param') and t0[1] == name

    def var_reach(self, local, all_variants, start_bb=0, start_set=None):
        """Reachable (block -> set of possible variant sets) when tracking which variant the
        enum-typed `local` holds: assignments of variant literals set it, switch/comparison
        edges on it refine it, edges whose refinement is empty are infeasible."""
        name = self.local_name(local)
        allv = frozenset(all_variants)
        init = frozenset(start_set) if start_set is not None else allv
        out_edges = defaultdict(list)
        for (s, d, fs) in self.edges():
            out_edges[s].append((d, fs))

        def transfer(bb, cur):
            blk = self.blocks[bb]
            for st in blk['stmts']:
                if st['k'] == 'assign' and st['place']['l'] == local and not st['place']['p']:
                    rt = unlet(self.rvalue_term(st['rv']))
                    if rt is not None and rt[0] == 'agg' and rt[2] in allv:
                        cur = frozenset([rt[2]])
                    elif rt is not None and rt[0] == 'phi' and all(
                            (unlet(x) or ('?',))[0] == 'agg' and unlet(x)[2] in allv for x in rt[2]):
                        cur = frozenset(unlet(x)[2] for x in rt[2])
                    else:
                        cur = allv
            t = blk['term']
            if t['k'] == 'call' and t['dest']['l'] == local and not t['dest']['p']:
                cur = allv
            return cur

        def refine(cur, f):
            if f.kind == 'is' and self._is_local_term(f.term, name):
                return cur & frozenset(f.variants)
            if f.kind == 'bool':
                t = unlet(f.term)
                if t is not None and t[0] == 'binop' and t[1] in ('Eq', 'Ne'):
                    op = t[1] if f.pol else CMP_NEG[t[1]]
                    for a, b in ((t[2], t[3]), (t[3], t[2])):
                        ub = unlet(b)
                        if self._is_local_term(a, name) and ub is not None and ub[0] == 'agg' and ub[2] in allv:
                            return (cur & frozenset([ub[2]])) if op == 'Eq' else (cur - frozenset([ub[2]]))
            return cur

        seen = defaultdict(set)
        work = deque([(start_bb, init)])
        seen[start_bb].add(init)
        while work:
            bb, cur = work.popleft()
            after = transfer(bb, cur)
            for (d, fs) in out_edges[bb]:
                if fs:
                    nxt = frozenset()
                    for f in fs:
                        nxt = nxt | refine(after, f)
                else:
                    nxt = after
                if not nxt:
                    continue
                if nxt not in seen[d]:
                    seen[d].add(nxt)
                    work.append((d, nxt))
        return seen

    # -- COUNT -----------------------------------------------------------------
    def count_paths(self, event_block_pred, cap=2):
        """Forward dataflow: for each block, set of possible event counts (saturating at cap)
        on entry; events happen at block terminators. Returns dict bb -> set(counts at exit)."""
        inset = defaultdict(set)
        inset[0].add(0)
        outset = defaultdict(set)
        work = deque([0])
        adj = defaultdict(list)
        for (s, d, _) in self.edges():
            adj[s].append(d)
        while work:
            x = work.popleft()
            add = 1 if event_block_pred(x) else 0
            new = {min(c + add, cap) for c in inset[x]}
            if new != outset[x]:
                outset[x] = new
                for y in adj[x]:
                    before = len(inset[y])
                    inset[y] |= new
                    if len(inset[y]) != before or y not in outset:
                        work.append(y)
        return outset


def callee_name(fi):
    return fi.get('rdef') or fi['def']


# ---------------------------------------------------------------------------
# program

class Program:
    def __init__(self, raw):
        self.raw = raw
        self.bodies = {}
        self.by_npath = defaultdict(list)
        self.adts = {}
        self.consts = {}
        self.fns = {}
        self.fns_by_npath = defaultdict(list)
        self.impls = []
        self.crates = []
        for name, d in raw.items():
            self.crates.append(name)
            for b in d['bodies']:
                body = Body(self, b)
                self.bodies[body.id] = body
                self.by_npath[body.npath].append(body)
            for a in d['adts']:
                self.adts[norm_path(a['path'])] = a
            for c in d['consts']:
                self.consts[norm_path(c['path'])] = c
            for f in d['fns']:
                self.fns[f['id']] = f
                self.fns_by_npath[norm_path(f['path'])].append(f)
            for im in d['impls']:
                self.impls.append(im)
        self._callgraph = None
        self._trait_impl_methods = None
        self.asked = set()      # normalised paths of the functions rules asked for by name (anchors); see engine/inline.py

    # -- lookup ----------------------------------------------------------------
    def body(self, path, nth=None):
        """Body by normalised pretty path (exact), e.g.
        'ntp_proto::source::NtpSource::handle_incoming'. Closures: append '::{closure#0}'."""
        bs = [b for b in self.by_npath.get(path, []) if b.raw['promoted'] is None]
        self.asked.add(path)
        if not bs:
            raise AnchorMissing('function not found: %s' % path)
        if len(bs) > 1:
            if nth is not None:
                return bs[nth]
            raise AnchorMissing('ambiguous function path: %s (%d bodies)' % (path, len(bs)))
        return bs[0]

    def bodies_matching(self, regex):
        out = [b for b in self.bodies.values() if b.raw['promoted'] is None and re.search(regex, b.npath)]
        self.asked.update(b.npath for b in out)
        return out

    def body_full(self, full_path):
        """Body by its full pretty path including generic arguments (for impls that differ only there)."""
        bs = [b for b in self.bodies.values() if b.raw['promoted'] is None and b.path == full_path]
        self.asked.update(b.npath for b in bs)
        if len(bs) != 1:
            raise AnchorMissing('function not found (full path): %s (%d bodies)' % (full_path, len(bs)))
        return bs[0]

    def async_body(self, path):
        """Body of an `async fn`: its coroutine closure."""
        return self.body(path + '::{closure#0}')

    def closures_of(self, body):
        return sorted([b for b in self.bodies.values() if b.raw.get('parent') == body.id and b.raw['promoted'] is None],
                      key=lambda b: b.path)

    def const(self, path):
        c = self.consts.get(path)
        if c is None:
            raise AnchorMissing('constant not found: %s' % path)
        return c

    def const_val(self, path):
        c = self.const(path)
        if c['v'] is None:
            raise AnchorMissing('constant not evaluated: %s' % path)
        return c['v']

    def adt(self, path):
        a = self.adts.get(path)
        if a is None:
            raise AnchorMissing('type not found: %s' % path)
        return a

    def fn_item(self, path):
        fs = self.fns_by_npath.get(path)
        if not fs:
            raise AnchorMissing('fn item not found: %s' % path)
        return fs[0]

    def impls_of(self, self_ty_re, trait_re=None):
        out = []
        for im in self.impls:
            if re.search(self_ty_re, strip_generics(im['self_ty'])):
                if trait_re is None:
                    out.append(im)
                elif im['trait'] and re.search(trait_re, im['trait']):
                    out.append(im)
        return out

    # -- call graph ----------------------------------------------------------------
    def trait_impl_methods(self):
        """trait item canonical id -> list of implementing method ids (workspace)."""
        if self._trait_impl_methods is None:
            m = defaultdict(list)
            for im in self.impls:
                for it in im['items']:
                    if it.get('trait_item'):
                        m[it['trait_item']].append(it['id'])
            self._trait_impl_methods = m
        return self._trait_impl_methods

    def callgraph(self):
        """body id -> list of (callee id, site line, kind) with kind in
        call / closure / fnref / dyn."""
        if self._callgraph is not None:
            return self._callgraph
        g = defaultdict(list)
        tim = self.trait_impl_methods()

        def scan_operand(bid, o, line):
            if o['k'] == 'const' and 'fn' in o:
                fi = o['fn']
                g[bid].append((fi.get('rid') or fi['id'], line, 'fnref'))

        for bid, b in self.bodies.items():
            for blk in b.blocks:
                if blk['cleanup']:
                    continue
                for s in blk['stmts']:
                    if s['k'] != 'assign':
                        continue
                    rv = s['rv']
                    if rv['k'] == 'agg':
                        if rv['ak'] in ('closure', 'coroutine', 'coroutine_closure'):
                            g[bid].append((rv['id'], s['line'], 'closure'))
                        for o in rv['ops']:
                            scan_operand(bid, o, s['line'])
                    elif rv['k'] in ('use', 'cast'):
                        scan_operand(bid, rv['o'], s['line'])
                t = blk['term']
                if t['k'] in ('call', 'tailcall'):
                    f = t['func']
                    if f['k'] == 'const' and 'fn' in f:
                        fi = f['fn']
                        tgt = fi.get('rid') or fi['id']
                        if fi.get('rkind') in ('unresolved', 'virtual') and fi['id'] in tim:
                            for mid in tim[fi['id']]:
                                g[bid].append((mid, t['line'], 'dyn'))
                            g[bid].append((fi['id'], t['line'], 'call'))
                        else:
                            g[bid].append((tgt, t['line'], 'call'))
                            # default trait method called on a concrete type: its body is the
                            # trait's provided method (same id) - nothing more to add
                    for a in t['args']:
                        scan_operand(bid, a, t['line'])
        self._callgraph = g
        return g

    def callers_of(self, fn_id_or_npath):
        """Bodies containing a call/reference to the function."""
        ids = set()
        self.asked.add(fn_id_or_npath)
        if fn_id_or_npath in self.bodies:
            self.asked.add(self.bodies[fn_id_or_npath].npath)
        if fn_id_or_npath in self.bodies or fn_id_or_npath in self.fns:
            ids.add(fn_id_or_npath)
        for f in self.fns_by_npath.get(fn_id_or_npath, []):
            ids.add(f['id'])
        for b in self.by_npath.get(fn_id_or_npath, []):
            ids.add(b.id)
        if not ids:
            raise AnchorMissing('function not found for callers_of: %s' % fn_id_or_npath)
        out = []
        for bid, es in self.callgraph().items():
            for (cid, line, kind) in es:
                if cid in ids:
                    out.append((self.bodies[bid], line, kind))
        return out

    def reachable_from(self, root_ids, stop=None):
        """BFS over the call graph among workspace bodies. Returns dict id -> (parent id, line)."""
        g = self.callgraph()
        par = {}
        q = deque()
        for r in root_ids:
            par[r] = (None, None)
            q.append(r)
        while q:
            x = q.popleft()
            for (cid, line, kind) in g.get(x, []):
                if cid in par:
                    continue
                if cid not in self.bodies:
                    continue
                if stop is not None and stop(cid):
                    continue
                par[cid] = (x, line)
                q.append(cid)
        return par

    def path_to(self, par, bid):
        out = []
        cur = bid
        while cur is not None:
            out.append(cur)
            cur = par[cur][0]
        return list(reversed(out))

    def field_writers(self, field, of=None):
        """(body, site) for every write of the field in the workspace."""
        out = []
        for b in self.bodies.values():
            if b.raw['promoted'] is not None:
                continue
            for s in b.field_writes(field, of):
                out.append((b, s))
        return out
