"""Fact extraction driver: builds mirfacts, runs it over /repo's working tree,
caches the fact files by a content hash of the workspace sources."""
import fcntl
import hashlib
import json
import os
import pickle
import shutil
import subprocess
import sys
import time

VERIF = os.path.dirname(os.path.dirname(os.path.abspath(__file__)))
REPO = os.environ.get("VERIF_REPO", "/repo")
CACHE = os.path.join(VERIF, ".cache")
DRIVER_DIR = os.path.join(VERIF, "tools", "mirfacts")
DRIVER = os.path.join(DRIVER_DIR, "target", "release", "mirfacts")

EXPECTED = {
    "default": [
        "ntp_proto-rlib", "ntpd-rlib", "statime_algo-rlib", "statime_base-rlib",
        "statime_csptp-rlib", "statime_netptp-rlib", "statime_wire-rlib",
        "ntp_ctl-executable", "ntp_daemon-executable", "ntp_metrics_exporter-executable",
    ],
}

MEMBERS = ["ntp-proto", "ntpd", "statime-algo", "statime-base", "statime-csptp",
           "statime-netptp", "statime-wire"]


def sh(cmd, **kw):
    return subprocess.run(cmd, shell=True, text=True, capture_output=True, **kw)


def nightly_sysroot():
    r = sh("rustc +nightly --print sysroot")
    if r.returncode != 0:
        raise RuntimeError("nightly toolchain missing: " + r.stderr)
    return r.stdout.strip()


def build_driver():
    src_mtime = 0
    for root, _, files in os.walk(os.path.join(DRIVER_DIR, "src")):
        for f in files:
            src_mtime = max(src_mtime, os.path.getmtime(os.path.join(root, f)))
    if os.path.exists(DRIVER) and os.path.getmtime(DRIVER) >= src_mtime:
        return
    env = dict(os.environ, CARGO_NET_OFFLINE="true")
    r = subprocess.run(["cargo", "build", "--release", "--offline"], cwd=DRIVER_DIR,
                       env=env, text=True, capture_output=True)
    if r.returncode != 0:
        sys.stderr.write(r.stdout[-3000:] + r.stderr[-6000:])
        raise RuntimeError("mirfacts driver failed to build")


def source_hash(repo=REPO):
    """Content hash over everything the workspace build reads."""
    h = hashlib.sha256()
    files = []
    for top in MEMBERS + ["Cargo.toml", "Cargo.lock"]:
        p = os.path.join(repo, top)
        if os.path.isfile(p):
            files.append(p)
            continue
        for root, dirs, fs in os.walk(p):
            dirs[:] = [d for d in dirs if d not in ("target", ".git")]
            for f in fs:
                files.append(os.path.join(root, f))
    for f in sorted(files):
        rel = os.path.relpath(f, repo)
        h.update(rel.encode())
        h.update(b"\0")
        try:
            with open(f, "rb") as fh:
                h.update(fh.read())
        except OSError:
            h.update(b"<unreadable>")
        h.update(b"\0")
    # the driver is part of the key
    for root, _, fs in os.walk(os.path.join(DRIVER_DIR, "src")):
        for f in sorted(fs):
            with open(os.path.join(root, f), "rb") as fh:
                h.update(fh.read())
    return h.hexdigest()[:24]


class FactsError(Exception):
    pass


def ensure_facts(repo=REPO, config="default", target_dir=None, quiet=False):
    """Returns (facts_dir, info). Rebuilds when the source hash changed."""
    os.makedirs(CACHE, exist_ok=True)
    lock = open(os.path.join(CACHE, "lock"), "w")
    fcntl.flock(lock, fcntl.LOCK_EX)
    try:
        build_driver()
        hsh = source_hash(repo)
        out = os.path.join(CACHE, "facts", config + "-" + hsh)
        stamp = os.path.join(out, "OK")
        if os.path.exists(stamp):
            return out, json.load(open(stamp))
        # prune old fact dirs (disk is limited)
        fdir = os.path.join(CACHE, "facts")
        if os.path.isdir(fdir):
            olds = sorted((os.path.getmtime(os.path.join(fdir, d)), d) for d in os.listdir(fdir))
            for _, d in olds[:-14]:
                shutil.rmtree(os.path.join(fdir, d), ignore_errors=True)
        if os.path.isdir(out):
            shutil.rmtree(out)
        os.makedirs(out)
        tdir = target_dir or os.path.join(CACHE, "target-" + config)
        # cargo must not skip the wrapper: drop the members' fingerprints
        fp = os.path.join(tdir, "debug", ".fingerprint")
        if os.path.isdir(fp):
            for d in os.listdir(fp):
                if d.startswith(("ntp-proto-", "ntpd-", "statime-")):
                    shutil.rmtree(os.path.join(fp, d), ignore_errors=True)
        env = dict(os.environ)
        env.update({
            "LD_LIBRARY_PATH": nightly_sysroot() + "/lib",
            "RUSTC_WORKSPACE_WRAPPER": DRIVER,
            "MIRFACTS_OUT": out,
            "CARGO_INCREMENTAL": "0",
            "CARGO_NET_OFFLINE": "true",
            "RUSTFLAGS": "-Zmir-opt-level=0 -Awarnings -Coverflow-checks=off -Cdebug-assertions=off",
            "CARGO_TARGET_DIR": tdir,
        })
        env.pop("RUSTC_WRAPPER", None)
        t0 = time.time()
        cmd = ["cargo", "+nightly", "check", "--workspace", "--offline"]
        r = subprocess.run(cmd, cwd=repo, env=env, text=True, capture_output=True)
        if r.returncode != 0:
            sys.stderr.write(r.stderr[-8000:])
            raise FactsError("cargo check with mirfacts failed (does /repo compile?)")
        missing = [e for e in EXPECTED[config] if not os.path.exists(os.path.join(out, e + ".json"))]
        if missing:
            raise FactsError("fact files missing (fail closed): %s" % missing)
        info = {"hash": hsh, "config": config, "build_s": round(time.time() - t0, 1),
                "files": sorted(os.listdir(out))}
        with open(stamp, "w") as f:
            json.dump(info, f)
        if not quiet:
            sys.stderr.write("[facts] built %s in %.1fs\n" % (out, info["build_s"]))
        return out, info
    finally:
        fcntl.flock(lock, fcntl.LOCK_UN)
        lock.close()


def load_raw(facts_dir, crates=None):
    """Load fact JSON files (pickle-cached)."""
    import gc
    gc.disable()
    try:
        return _load_raw(facts_dir, crates)
    finally:
        gc.freeze()
        gc.enable()


def _load_raw(facts_dir, crates=None):
    res = {}
    for f in sorted(os.listdir(facts_dir)):
        if not f.endswith(".json"):
            continue
        name = f[:-5]
        if crates is not None and name not in crates:
            continue
        p = os.path.join(facts_dir, f)
        pk = p[:-5] + ".pickle"
        if os.path.exists(pk) and os.path.getmtime(pk) >= os.path.getmtime(p):
            try:
                with open(pk, "rb") as fh:
                    res[name] = pickle.load(fh)
                continue
            except Exception:
                pass
        with open(p) as fh:
            d = json.load(fh)
        try:
            with open(pk + ".tmp%d" % os.getpid(), "wb") as fh:
                pickle.dump(d, fh, protocol=pickle.HIGHEST_PROTOCOL)
            os.replace(pk + ".tmp%d" % os.getpid(), pk)
        except OSError:
            pass
        res[name] = d
    return res
